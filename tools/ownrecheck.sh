#!/usr/bin/env bash
# tools/ownrecheck.sh [ids...]  -- run each kept seeded change against the quick check of the property it was written
# against only (the first three characters of its id), six at a time, and list those that check no longer catches.
# Cheaper than refreshseeds.sh (which runs all 17 checks per seed); used after changes to the shared generators.
cd /verif
SNAP=/tmp/ownchk_harness.$$; rm -rf $SNAP; cp -r /verif/harness $SNAP; export HARNESS_DIR=$SNAP
OUT=/tmp/ownchk_out; mkdir -p $OUT
LIST="${*:-$(ls seeded)}"
run1() { id=$1; prop=${id:0:3}; tools/seedcheck.sh --no-confirm seeded/$id $prop > $OUT/$id.txt 2>&1; }
n=0; for id in $LIST; do run1 $id & n=$((n+1)); [ $((n%6)) = 0 ] && wait; done; wait
for id in $LIST; do l=$(grep "^check" $OUT/$id.txt); case "$l" in *"exit 1"*) echo "caught $id";; *) echo "NOT-CAUGHT $id: $l";; esac; done
echo OWNRECHECK-DONE
rm -rf $SNAP
