#!/usr/bin/env bash
# tools/refreshseeds.sh [--in-repo] [ids...]  -- re-run the quick checks against every kept seeded change and
# rewrite seeded/<id>/meta.json (quick_checks_against_it, caught_by).  Scratch mode runs 4 seeds side by side.
cd /verif
MODE=""; [ "${1:-}" = "--in-repo" ] && { MODE="--in-repo"; shift; }
IDS="${*:-$(ls seeded)}"
# build every seed against one snapshot of the harness sources taken now
SNAP=/tmp/refresh_harness.$$; rm -rf $SNAP; cp -r /verif/harness $SNAP; export HARNESS_DIR=$SNAP; trap "rm -rf $SNAP" EXIT
run1() { id=$1; tools/seedcheck.sh $MODE --no-confirm seeded/$id > /tmp/refresh_$id.txt 2>&1
  python3 - "$id" <<'PY'
import json,re,sys
sid=sys.argv[1]; p=f"/verif/seeded/{sid}/meta.json"; m=json.load(open(p)); checks={}
for line in open(f"/tmp/refresh_{sid}.txt"):
    mm=re.match(r"check (C\d+): exit (\d+)\s*(.*)", line)
    if mm: checks[mm.group(1)]={"exit":int(mm.group(2)),"keys":[k for k in mm.group(3).strip().split(";") if k]}
if len(checks)<17: print(sid,"INCOMPLETE",len(checks)); sys.exit(1)
m["quick_checks_against_it"]=checks; m["caught_by"]=sorted(k for k,v in checks.items() if v["exit"]==1)
json.dump(m,open(p,"w"),indent=1); print(sid,"caught by",m["caught_by"])
PY
}
if [ -n "$MODE" ]; then for id in $IDS; do run1 $id; done; else
  n=0; for id in $IDS; do run1 $id & n=$((n+1)); [ $((n%4)) = 0 ] && wait; done; wait; fi
