#!/usr/bin/env bash
# tools/refreshseeds.sh [--in-repo] [ids...]  -- re-run the quick checks against every kept seeded change and
# rewrite seeded/<id>/meta.json (quick_checks_against_it, caught_by).  Scratch mode runs 4 seeds side by side.
# REFRESH_CHECKS="C01 C06" restricts the run to those checks and merges their results into the existing meta.
cd /verif
MODE=""; [ "${1:-}" = "--in-repo" ] && { MODE="--in-repo"; shift; }
IDS="${*:-$(ls seeded)}"
# build every seed against one snapshot of the harness sources taken now
SNAP=/tmp/refresh_harness.$$; rm -rf $SNAP; cp -r /verif/harness $SNAP; export HARNESS_DIR=$SNAP; trap "rm -rf $SNAP" EXIT
run1() { id=$1; tools/seedcheck.sh $MODE --no-confirm seeded/$id ${REFRESH_CHECKS:-} > /tmp/refresh_$id.txt 2>&1
  python3 - "$id" <<'PY'
import json,re,sys
sid=sys.argv[1]; p=f"/verif/seeded/{sid}/meta.json"; m=json.load(open(p)); checks={}
for line in open(f"/tmp/refresh_{sid}.txt"):
    mm=re.match(r"check (C\d+): exit (\d+)\s*(.*)", line)
    if mm: checks[mm.group(1)]={"exit":int(mm.group(2)),"keys":[k for k in mm.group(3).strip().split(";") if k]}
import os
want=os.environ.get("REFRESH_CHECKS","").split()
if want:
    if sorted(checks)!=sorted(want): print(sid,"INCOMPLETE",sorted(checks)); sys.exit(1)
    old=m.get("quick_checks_against_it",{}); old.update(checks); checks=old
if len(checks)<17: print(sid,"INCOMPLETE",len(checks)); sys.exit(1)
m["quick_checks_against_it"]=checks; m["caught_by"]=sorted(k for k,v in checks.items() if v["exit"]==1)
json.dump(m,open(p,"w"),indent=1); print(sid,"caught by",m["caught_by"])
PY
}
if [ -n "$MODE" ]; then for id in $IDS; do run1 $id; done; else
  n=0; for id in $IDS; do run1 $id & n=$((n+1)); [ $((n%4)) = 0 ] && wait; done; wait; fi
