#!/usr/bin/env bash
# tools/coverage.sh [outdir]  -- statement coverage of /repo's library under the quick tier of the plain-binary checks.
# Scratch output goes to outdir (default /root/cov), never under /verif or /tmp.
set -u
export GOFLAGS=-mod=mod GOPROXY=off GOSUMDB=off GOTOOLCHAIN=local
OUT="${1:-/root/cov}"; rm -rf "$OUT"; mkdir -p "$OUT/bin" "$OUT/data" "$OUT/root"
cd /verif/harness || exit 2
# the library alone as -coverpkg makes the coverage runtime write nothing; the harness packages are listed too
go build -cover -coverpkg=github.com/utreexo/utreexo,verifharness/... -tags verif -o "$OUT/bin/mon-cover" ./cmd/mon || exit 2
cp /verif/known_findings.json "$OUT/root/"; cp -r /verif/findings "$OUT/root/findings"
cd "$OUT/root"
for c in C01 C02 C03 C04 C05 C06 C07 C08 C09 C10 C11 C13 C14 C15 C16 C17; do
  GOCOVERDIR="$OUT/data" VERIF_ROOT="$OUT/root" "$OUT/bin/mon-cover" -prop $c -tier quick >"$OUT/$c.log" 2>&1; echo "$c exit $?"
done
cd /verif/harness
go tool covdata percent -i="$OUT/data" -pkg=github.com/utreexo/utreexo
go tool covdata textfmt -i="$OUT/data" -pkg=github.com/utreexo/utreexo -o "$OUT/prof.txt"
go tool cover -func="$OUT/prof.txt" | awk '$3+0 < 100.0' | sort -k3 -n | head -80
