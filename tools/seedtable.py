#!/usr/bin/env python3
"""tools/seedtable.py -- print the DESIGN.md section-9 table from seeded/*/meta.json."""
import json, glob
rows = []
for m in sorted(glob.glob('/verif/seeded/*/meta.json')):
    d = json.load(open(m))
    tgt = d['breaks_property']
    caught = d.get('caught_by', [])
    others = [c for c in caught if c != tgt]
    own = 'yes' if tgt in caught else '**NO**'
    if d.get('out_of_domain'):
        own = 'n/a (outside the domain)'
    rows.append((d['id'], tgt, d['change'].replace('|', '/'), own, ' '.join(others) or '-'))
out = ["| seed | breaks | change (one line) | caught by its own check | also caught by |", "|---|---|---|---|---|"]
for r in rows:
    ch = r[2] if len(r[2]) < 170 else r[2][:167] + '...'
    out.append(f"| {r[0]} | {r[1]} | {ch} | {r[3]} | {r[4]} |")
out.append("")
out.append(f"{len(rows)} seeded changes; {sum(1 for r in rows if r[3]=='yes')} caught by the check of the property they were written against, {sum(1 for r in rows if r[3].startswith('n/a'))} outside the properties' domain, {sum(1 for r in rows if r[3]=='**NO**')} missed.")
text = "\n".join(out)
import sys
if len(sys.argv) > 1 and sys.argv[1] == "--update-design":
    p = "/verif/DESIGN.md"; d = open(p).read()
    a = d.index("<!-- SEEDTABLE-BEGIN -->") + len("<!-- SEEDTABLE-BEGIN -->"); b = d.index("<!-- SEEDTABLE-END -->")
    open(p, "w").write(d[:a] + "\n" + text + "\n" + d[b:])
    print("DESIGN.md updated;", out[-1])
else:
    print(text)
