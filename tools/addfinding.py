#!/usr/bin/env python3
"""tools/addfinding.py ID PROP STATUS COMMIT REPLAY 'what' key [key...]  -- maintain known_findings.json by hand (never run by checks)."""
import json, sys
id_, prop, status, commit, replay, what = sys.argv[1:7]
keys = sys.argv[7:]
p = "/verif/known_findings.json"
d = json.load(open(p))
d["findings"] = [f for f in d["findings"] if f["id"] != id_]
e = {"id": id_, "property": prop, "status": status, "keys": keys, "what": what}
if commit != "-": e["commit"] = commit
if replay != "-": e["replay"] = replay
e["line"] = ("fixed: property=%s %s %s" % (prop, commit, what)) if status == "fixed" else ("KNOWN-FINDING: property=%s %s" % (prop, what))
d["findings"].append(e)
d["findings"].sort(key=lambda f: f["id"])
json.dump(d, open(p, "w"), indent=1)
print(e["line"])
