#!/usr/bin/env python3
"""Regenerate /verif/MANIFEST.json from the table below (run from /verif)."""
import json, subprocess, sys

ORACLE = "Assumes SHA-512/256 collision freedom and the correctness of the ~450-line reference model (harness/refmodel); says nothing about histories, inputs or schedules that were not run."

# id -> (category, technique, text, note, design section)
CHECKS = {
 "C01": ("exploration", "runtime monitoring: reference-model oracle over enumerated and seeded block histories",
  "Roots and leaf count of Stump, Pollard and MapPollard (full/partial, TotalRows 0..63) are compared with an independent reference model after every block of enumerated small-scope and seeded random histories, under two other batchings of the same per-leaf fate, and after every operation of forest scenarios (undo, re-applied blocks, remember/ingest/prune, refused calls, reloads); held on the executions observed.",
  ORACLE),
 "C02": ("exploration", "runtime monitoring: canonical-proof oracle (reference model) over every state of generated histories",
  "At every state of the generated histories Pollard and MapPollard (full/partial) are asked for singletons, the full set, all subsets of small forests and random subsets in random request order; targets, proof hashes, cross-implementation identity, acceptance by every verifier and Verify's root indexes are compared with the reference model's canonical proof.",
  ORACLE),
 "C03": ("exploration", "runtime monitoring: truth oracle (reference-model node map) over exhaustive small-alphabet claims and structured mutation of honest proofs",
  "Every claim accepted by Verify, Pollard.Verify, MapPollard.Verify or MapPollard.VerifyPartialProof is checked against the reference model's position->hash map: exhaustively over a small alphabet of targets/hashes/proofs for small forests, by structured mutation of honest proofs on larger ones (also with remember=true, on throw-away copies), and after undo/remember/prune/refused calls with honest claims of earlier states; an accepted false claim is a violation.",
  ORACLE + " Violations matching the recorded open findings (root candidate matched against a root of another tree; duplicated target used as its own sibling) are reported as KNOWN-FINDING."),
 "C04": ("exploration", "runtime monitoring: hostile-input workload in child processes with panic capture, logical step budget (hook) and state comparison",
  "Adversarial (hashes, targets, proof) triples - targets up to 2^64-1, duplicates, mismatched lengths, empty and oversized proofs - are thrown at Verify, Stump.Update, Pollard.Verify, MapPollard.Verify, VerifyPartialProof and GetMissingPositions in child processes; a panic, a call exceeding the logical step budget counted at the calcHashes hook (or the wall-clock backstop), or a rejected Stump.Update that changed roots/leaf count is a violation.",
  "Termination is judged by a hook-counted step budget polynomial in the input size, with a generous wall-clock watchdog as backstop only; remembering entry points are driven on throw-away copies; covers only the inputs generated (synthetic stumps up to 2^64-1 leaves)."),
 "C05": ("exploration", "runtime monitoring: reference-model oracle over re-encoded accepted proofs",
  "Each block's honest proof is re-encoded (permuted pairs, trailing junk hashes, AddProof/GetProofSubset assemblies, updated cached proofs); every encoding Verify accepts is applied to Stump, Pollard and MapPollard (full/partial, several TotalRows) and the resulting roots/leaf count are compared with the reference model.",
  ORACLE),
 "C06": ("exploration", "runtime monitoring: reference-model snapshots, never-saw-it twin instances and a structure walk hook after every undo/redo",
  "Histories of apply/undo-k/redo rounds (incl. full unwinds, emptied trees, overwritten empty roots, reloads from the instance's own bytes, blocks whose proof carries a surplus hash, hash-less undos on full forests) on Pollard, full and partial MapPollard: undone blocks are also re-applied from their own (shared, uncopied) records; after every Undo roots, leaf count, every tracked leaf's position, GetHash of every position and proofs are compared with the reference model's snapshot of the earlier state and with a twin that never saw the undone blocks; Pollard's pointer structure is walked by the VerifCheckStructure hook.",
  ORACLE),
 "C07": ("exploration", "runtime monitoring: reference-model oracle over a light client driven only by block data",
  "A light client (Stump + Proof + hashes) is updated with block targets, added hashes, remember indexes and its own UpdateData (its cached proof sometimes re-ordered through GetProofSubset first) along enumerated (every remember subset) and seeded histories; the held leaf set, each position, the proof hashes and acceptance by Verify are compared with the reference model after every block.",
  ORACLE),
 "C08": ("exploration", "runtime monitoring: reference-model oracle over cached-proof update/undo/redo histories",
  "C07 runs followed by undo of the last k blocks newest-first (down to the empty accumulator) and redo on another branch; after each Proof.Undo the held set must be the previously held leaves minus the block's additions, with reference-model positions and canonical proof hashes, and must verify against the previous stump.",
  ORACLE + " One open finding (D6: leaves lost when ToDestroy is non-empty) is recorded in known_findings.json and matched narrowly by site/clause/trigger."),
 "C09": ("exploration", "runtime monitoring: invariant walk over Nodes/CachedLeaves against the reference model and a shadow remembered set after every operation",
  "Random interleavings of Modify, Verify(remember), Ingest, Prune and Undo on partial MapPollards (incl. NewMapPollardFromRoots starts); after every operation every stored position must hold the reference model's hash, lie on roots/remembered leaves/their proof paths, CachedLeaves must equal the shadow remembered set, and every remembered leaf must be provable canonically.",
  ORACLE),
 "C10": ("exploration", "runtime monitoring: reference-model oracle over hash and position look-ups at every state",
  "At every state of block/undo/remember/prune/restore scenarios GetLeafPosition, GetLeafHashPositions and GetHash are queried with hashes of every class (live, dead, internal, root, fresh) and every position in [0, 2^(rows+1)+8] and compared with the reference model; tracked-leaf counts must equal additions minus deletions.",
  ORACLE + " One open finding (D8: MapPollard.GetHash aliasing above the forest top when TotalRows>TreeRows) is recorded in known_findings.json."),
 "C11": ("exploration", "runtime monitoring: reference-model oracle for UpdateData over enumerated and seeded blocks",
  "Every field of the UpdateData returned by Stump.Update (PrevNumLeaves, ToDestroy order, NewDel hashes/positions, NewAdd hashes/positions) is compared with the value the reference model derives independently, over the enumerated small scope and seeded histories.",
  ORACLE),
 "C12": ("exploration", "runtime monitoring: Go race detector over concurrent reader/writer workloads + porcupine linearizability check of histories recorded while the writer is suspended at hook sites",
  "Built with -race and the verif hooks: readers of every query kind (short and long requests, argument slices shared between readers, incl. concurrent remembering verifiers on full forests) run against a writer executing Modify/Undo/Ingest/Prune/Verify(remember)/Read (succeeding and failing); race-detector reports are de-duplicated by entry-point pair; at each of ten pause sites (inside the writer's critical section, inside Write, inside a concurrent verifier) the recorded call/return history is checked with porcupine against per-block reference states so a query that saw a half-applied block is Illegal; deadlocks and panics are caught by join watchdogs.",
  "Covers only the interleavings produced (forced pauses at hooked sites plus free-running schedules); the Go scheduler is not controllable and rr is unavailable."),
 "C13": ("fault_enumeration", "runtime monitoring with fault injection: every truncation offset, every writer failure offset and eight reader kinds per serialized state",
  "For each sampled end state of Pollard, full and partial MapPollard (small, tens-of-KB and from-roots forests up to 2^63 leaves) the stream is restored through every reader chunking (also two records back to back from one byte-counting reader), from every strict prefix and written to sinks failing at every offset; restored instances are compared observationally with the original (and evolved further, incl. undoing a block older than the stream), byte counts and SerializeSize are checked, and silent acceptance of a damaged stream or a panic is a violation.",
  "The fault space is enumerated completely per state; the states themselves are sampled. In-process io.Reader/io.Writer faults (the library does no system calls)."),
 "C14": ("exploration", "runtime monitoring: canonical-proof oracle for AddProof/GetProofSubset/GetMissingPositions/VerifyPartialProof",
  "At states of generated histories pairs of target sets (overlapping, disjoint, nested, cross-tree; sorted and prover order) are combined, restricted and completed; results are compared with the reference model's canonical proofs and missing-position sets, error/no-error with coverage (uncovered wants incl. computable ancestors and carried siblings), and the completed partial proofs must verify (and fail when one supplied hash is corrupted).",
  ORACLE),
 "C15": ("exploration", "runtime monitoring: leaf-lifetime ledger oracle over enumerated and seeded block summaries",
  "AddBlockSummary/GenerateCachingSchedule are run along enumerated small-scope and seeded histories for several memory limits (schedules also asked part-way through a recording; one reused deletions buffer); each scheduled position must be the slot of a leaf added in that block and deleted later, unique and ascending, the number of scheduled leaves alive at any block must not exceed the limit, and an unbounded limit must schedule every qualifying leaf.",
  "The ledger is kept by the generator itself; no library code is involved in the oracle."),
 "C16": ("exploration", "runtime monitoring: math/big geometry oracle, exhaustive for small heights, boundary/random for heights up to 63",
  "Exported position functions are compared with an independent big-integer geometry: exhaustively for heights <= 6 (all positions, leaf counts, target subsets of forests <= 8 leaves for ProofPositions) and on boundary and random 64-bit values for every height up to 63; returned slices are overwritten / appended to and the function asked again (RootPositions) or the other result re-compared (ProofPositions), so results that share memory are caught.",
  "Oracle shares no shift/mask code with utils.go; positions outside the documented domain are only checked for documented error returns."),
 "C17": ("exploration", "runtime monitoring: sentinel-padded argument slices and aliasing canaries compared before/after every call",
  "Every argument slice is a sub-slice of a larger backing array with sentinels, deep-copied before each call and compared afterwards; previously returned results are retained and re-compared after later calls; block data is re-used across verify, three instances, undo and re-apply. (Since round 10 every other monitor also hands the library roomy argument slices with junk tails and empty non-nil lists in two cases out of five.)",
  "Honest blocks over the generated histories plus Modify calls that a partial forest must refuse; receiver state is not a caller slice."),
}

# properties with a registered check (edit as monitors land)
REGISTERED = ["C01","C02","C03","C04","C05","C06","C07","C08","C09","C10","C11","C12","C13","C14","C15","C16","C17"]
PENDING = {
}
if len(sys.argv) > 1 and sys.argv[1].startswith("--pending="):
    for p in sys.argv[1].split("=",1)[1].split(","):
        if p:
            REGISTERED.remove(p); PENDING[p] = "monitor under construction in this session; not yet registered"

def hook_commits():
    try:
        out = subprocess.check_output(["git","-C","/repo","log","--format=%h %s"], text=True)
    except Exception:
        return []
    return [l.split()[0] for l in out.splitlines() if l.split(" ",1)[1].startswith("verif hooks")]

notes = open("tools/manifest_notes.txt").read().strip() if __import__("os").path.exists("tools/manifest_notes.txt") else ""

m = {
 "version": 1,
 "setup_cmd": "./run.sh --build",
 "hooks": {
  "guard": "verif",
  "enable": "go build -tags verif (done by run.sh for every check; the harness module replaces github.com/utreexo/utreexo with /repo)",
  "baseline_off_cmd": "cd /repo && GOFLAGS=-mod=mod GOPROXY=off GOSUMDB=off GOTOOLCHAIN=local go test -vet=off -count=1 -timeout 25m ./...",
  "source_commits": hook_commits(),
  "add_only": True,
 },
 "engines": [{
  "name": "mon", "path": "harness/cmd/mon", "serves_properties": REGISTERED,
  "kind_free_text": "Go driver: seeded/enumerated workloads run against the real library in child processes (plain or -race build, tag verif), monitored by an independent reference model and per-property oracles; writes evidence/<id>.json and replays/",
 }],
 "checks": [],
 "notes": notes,
 "not_applicable": [{"property_id": p, "reason": r} for p, r in sorted(PENDING.items())],
}
for p in REGISTERED:
    cat, tech, text, note = CHECKS[p]
    m["checks"].append({
     "property_id": p,
     "quick_cmd": f"./run.sh {p} quick",
     "thorough_cmd": f"./run.sh {p} thorough",
     "evidence_file": f"evidence/{p}.json",
     "replay_cmd_template": f"./run.sh {p} --replay {{path}}",
     "engine": "mon",
     "level_claimed": {"category": cat, "text": text, "design_ref": f"DESIGN.md section 5 {p}"},
     "level_note": note,
     "technique": tech,
    })
json.dump(m, open("MANIFEST.json","w"), indent=1)
print("wrote MANIFEST.json:", len(m["checks"]), "checks,", len(m["not_applicable"]), "pending")
