#!/usr/bin/env bash
# tools/seedcheck.sh <seed_out dir> [checks...]
# 1. confirms a seeded change in a scratch worktree: suite passes with it, the
#    demonstration fails with it and passes without it;
# 2. applies it to /repo, runs the quick checks (all, or the ones named), reverts.
# Never commits anything to /repo.  Output: one line per check.
set -u
export GOFLAGS=-mod=mod GOPROXY=off GOSUMDB=off GOTOOLCHAIN=local
SD="$(cd "$1" && pwd)"; shift
CHECKS="${*:-C01 C02 C03 C04 C05 C06 C07 C08 C09 C10 C11 C12 C13 C14 C15 C16 C17}"
PATCH="$SD/patch.diff"
[ -f "$PATCH" ] || { echo "no patch.diff in $SD"; exit 2; }
if [ -n "$(git -C /repo status --porcelain --untracked-files=no)" ]; then echo "/repo is dirty; refusing"; exit 2; fi
WT="/tmp/seedchk.$$"
git -C /repo worktree add -q --detach "$WT" HEAD || exit 2
cleanup() { git -C /repo worktree remove --force "$WT" 2>/dev/null; git -C /repo checkout -- . 2>/dev/null; }
trap cleanup EXIT
DEMOS=$(ls "$SD"/*_test.go 2>/dev/null)
if [ "${SKIP_CONFIRM:-0}" != 1 ]; then
  # demo without the change
  if [ -n "$DEMOS" ]; then
    cp $DEMOS "$WT/"
    (cd "$WT" && go test -vet=off -count=1 -timeout 25m . >"$WT/.demo_clean.log" 2>&1); echo "confirm: suite+demo WITHOUT change: exit $? (want 0)"
  fi
  git -C "$WT" apply "$PATCH" || { echo "patch does not apply"; exit 2; }
  if [ -n "$DEMOS" ]; then
    (cd "$WT" && go test -vet=off -count=1 -timeout 25m . >"$WT/.demo_patched.log" 2>&1); echo "confirm: suite+demo WITH change: exit $? (want non-zero)"
    grep -E "^(--- FAIL|FAIL|panic)" "$WT/.demo_patched.log" | head -5
    for d in $DEMOS; do rm -f "$WT/$(basename $d)"; done
  fi
  (cd "$WT" && go test -vet=off -count=1 -timeout 25m ./... >"$WT/.suite_patched.log" 2>&1); echo "confirm: suite alone WITH change: exit $? (want 0)"
fi
git -C /repo worktree remove --force "$WT"
# run the checks against /repo with the change applied
git -C /repo apply "$PATCH" || { echo "patch does not apply to /repo"; exit 2; }
cd /verif
for c in $CHECKS; do
  out=$(./run.sh $c quick 2>&1); rc=$?
  keys=$(echo "$out" | grep -E "^  key=" | sed 's/^  key=//; s/ suite=.*//' | sort -u | head -4 | tr '\n' ';')
  echo "check $c: exit $rc  $keys"
done
git -C /repo checkout -- .
# evidence files were rewritten by runs on a modified tree: restore the committed ones
git -C /verif checkout -- evidence 2>/dev/null
exit 0
