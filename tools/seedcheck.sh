#!/usr/bin/env bash
# tools/seedcheck.sh [--in-repo] [--no-confirm] <dir with patch.diff (+ *_test.go demo)> [checks...]
# 1. confirms a seeded change in a scratch worktree: the suite passes with it, the
#    demonstration fails with it and passes without it;
# 2. runs the quick checks against the changed library:
#      default   : the harness is built against the scratch worktree (-modfile with another replace),
#                  with a private VERIF_ROOT, so several seedchecks can run side by side;
#      --in-repo : git -C /repo apply, ./run.sh <check> quick for each, git -C /repo checkout -- .
# Never commits anything to /repo.  Output: one line per check.
set -u
export GOFLAGS=-mod=mod GOPROXY=off GOSUMDB=off GOTOOLCHAIN=local
INREPO=0; CONFIRM=1
while [ "${1:-}" = "--in-repo" ] || [ "${1:-}" = "--no-confirm" ]; do
  [ "$1" = "--in-repo" ] && INREPO=1; [ "$1" = "--no-confirm" ] && CONFIRM=0; shift
done
SD="$(cd "$1" && pwd)"; shift
CHECKS="${*:-C01 C02 C03 C04 C05 C06 C07 C08 C09 C10 C11 C12 C13 C14 C15 C16 C17}"
PATCH="$SD/patch.diff"
[ -f "$PATCH" ] || { echo "no patch.diff in $SD"; exit 2; }
WT="/tmp/seedchk.$$"
git -C /repo worktree add -q --detach "$WT" HEAD || exit 2
cleanup() { git -C /repo worktree remove --force "$WT" 2>/dev/null; rm -rf "/tmp/seedchk.$$.root"; [ $INREPO = 1 ] && git -C /repo checkout -- . 2>/dev/null; }
trap cleanup EXIT
DEMOS=$(ls "$SD"/*_test.go 2>/dev/null)
if [ $CONFIRM = 1 ]; then
  if [ -n "$DEMOS" ]; then
    cp $DEMOS "$WT/"
    (cd "$WT" && go test -vet=off -count=1 -timeout 25m . >"$WT/.demo_clean.log" 2>&1); echo "confirm: suite+demo WITHOUT change: exit $? (want 0)"
  fi
  git -C "$WT" apply "$PATCH" || { echo "patch does not apply"; exit 2; }
  if [ -n "$DEMOS" ]; then
    (cd "$WT" && go test -vet=off -count=1 -timeout 25m . >"$WT/.demo_patched.log" 2>&1); echo "confirm: suite+demo WITH change: exit $? (want non-zero)"
    grep -E "^(--- FAIL|FAIL|panic|WARNING: DATA RACE)" "$WT/.demo_patched.log" | head -4
    for d in $DEMOS; do rm -f "$WT/$(basename $d)"; done
  fi
  (cd "$WT" && go test -vet=off -count=1 -timeout 25m ./... >"$WT/.suite_patched.log" 2>&1); echo "confirm: suite alone WITH change: exit $? (want 0)"
else
  git -C "$WT" apply "$PATCH" || { echo "patch does not apply"; exit 2; }
fi
report() { # $1 check, $2 rc, $3 output
  keys=$(echo "$3" | grep -E "^  key=" | sed 's/^  key=//; s/ suite=.*//' | sort -u | head -4 | tr '\n' ';')
  echo "check $1: exit $2  $keys"
}
if [ $INREPO = 1 ]; then
  if [ -n "$(git -C /repo status --porcelain --untracked-files=no)" ]; then echo "/repo is dirty; refusing"; exit 2; fi
  git -C /repo apply "$PATCH" || { echo "patch does not apply to /repo"; exit 2; }
  cd /verif
  for c in $CHECKS; do out=$(./run.sh $c quick 2>&1); report $c $? "$out"; done
  git -C /repo checkout -- .
  git -C /verif checkout -- evidence 2>/dev/null
  exit 0
fi
# scratch mode
ROOT="/tmp/seedchk.$$.root"; mkdir -p "$ROOT/bin"
cp /verif/known_findings.json "$ROOT/"; cp -r /verif/findings "$ROOT/findings"
HD="${HARNESS_DIR:-/verif/harness}"   # refreshseeds.sh points this at a snapshot so that the harness can be edited meanwhile
sed "s|=> /repo|=> $WT|" "$HD/go.mod" > "$ROOT/go.mod"
cat "$WT/go.sum" "$HD/go.sum.extra" | sort -u > "$ROOT/go.sum"
need_race=0; need_plain=0
for c in $CHECKS; do [ $c = C12 ] && need_race=1 || need_plain=1; done
( cd "$HD"
  rc=0
  if [ $need_plain = 1 ]; then go build -modfile="$ROOT/go.mod" -tags verif -o "$ROOT/bin/mon-plain" ./cmd/mon || rc=1; fi
  if [ $need_race = 1 ]; then go build -modfile="$ROOT/go.mod" -race -tags verif -o "$ROOT/bin/mon-race" ./cmd/mon || rc=1; fi
  exit $rc ) >"$ROOT/build.log" 2>&1 || { echo "BUILD-FAILED"; cat "$ROOT/build.log" | head -20; exit 2; }
for c in $CHECKS; do
  k=plain; [ $c = C12 ] && k=race
  out=$(cd "$ROOT" && VERIF_ROOT="$ROOT" "$ROOT/bin/mon-$k" -prop $c -tier quick 2>&1); report $c $? "$out"
done
exit 0
