#!/usr/bin/env python3
"""tools/keepseed.py ID PROP RESULT_FILE SEED_OUT_DIR 'what it changes' 'what it needs to manifest' -- store a confirmed seeded change under /verif/seeded/ID/."""
import json, os, re, shutil, sys, glob
sid, prop, result, sd, what, needs = sys.argv[1:7]
dst = f"/verif/seeded/{sid}"
os.makedirs(dst, exist_ok=True)
shutil.copy(os.path.join(sd, "patch.diff"), dst)
for f in glob.glob(os.path.join(sd, "*_test.go")):
    shutil.copy(f, os.path.join(dst, os.path.basename(f)))
if os.path.exists(os.path.join(sd, "notes.md")):
    shutil.copy(os.path.join(sd, "notes.md"), os.path.join(dst, "agent_notes.md"))
confirm, checks = {}, {}
for line in open(result):
    m = re.match(r"confirm: (.*): exit (\d+)", line)
    if m: confirm[m.group(1)] = int(m.group(2))
    m = re.match(r"check (C\d+): exit (\d+)\s*(.*)", line)
    if m: checks[m.group(1)] = {"exit": int(m.group(2)), "keys": [k for k in m.group(3).strip().split(";") if k]}
meta = {
 "id": sid, "breaks_property": prop, "change": what, "needs_to_manifest": needs,
 "produced_by": "independent sub-agent given only the property text and a private worktree",
 "confirmed": confirm,
 "confirm_commands": ["git apply patch.diff in a scratch worktree of /repo HEAD", "go test -vet=off -count=1 ./... (suite, with change): must pass",
   "go test with the demonstration copied into the package root: must fail with the change and pass without it"],
 "quick_checks_against_it": checks,
 "caught_by": sorted(k for k, v in checks.items() if v["exit"] == 1),
 "how_checks_were_run": "tools/seedcheck.sh (harness built against a scratch worktree with the patch applied; same sources and known_findings as ./run.sh <ID> quick)",
}
json.dump(meta, open(os.path.join(dst, "meta.json"), "w"), indent=1)
print(sid, "caught by", meta["caught_by"])
