// Package refmodel is the implementation-independent oracle for the utreexo
// accumulator (DESIGN.md section 3).  The accumulator state is a pure function
// of (leaf hash, insertion slot, alive?) per leaf.  Nothing here calls into the
// utreexo package except for its plain data types.
package refmodel

import (
	"crypto/sha512"
	"encoding/binary"
	"math/bits"
	"sort"

	u "github.com/utreexo/utreexo"
)

type Hash = u.Hash

var Zero Hash

// PH is SHA-512/256(l || r), written here independently of utils.go.
func PH(l, r Hash) Hash {
	h := sha512.New512_256()
	h.Write(l[:])
	h.Write(r[:])
	var o Hash
	copy(o[:], h.Sum(nil))
	return o
}

// LeafHash makes a unique non-zero leaf hash, distinct in its first 12 bytes.
func LeafHash(tag, ctr uint64) Hash {
	var b [24]byte
	copy(b[:8], "vfleaf!!")
	binary.LittleEndian.PutUint64(b[8:], tag)
	binary.LittleEndian.PutUint64(b[16:], ctr)
	h := sha512.Sum512_256(b[:])
	var o Hash
	copy(o[:], h[:])
	return o
}

// FreshHash makes a hash that is never a leaf nor (barring collisions) a node.
func FreshHash(tag, ctr uint64) Hash {
	var b [24]byte
	copy(b[:8], "vffresh!")
	binary.LittleEndian.PutUint64(b[8:], tag)
	binary.LittleEndian.PutUint64(b[16:], ctr)
	h := sha512.Sum512_256(b[:])
	var o Hash
	copy(o[:], h[:])
	return o
}

// ---------------------------------------------------------------------------
// Geometry (uint64 with wrap-around; valid for heights 0..63).

// Rows is ceil(log2 n).
func Rows(n uint64) uint8 {
	if n == 0 {
		return 0
	}
	return uint8(bits.Len64(n - 1))
}

// RowStart is the first position of row r in a forest of height h:
// 2^(h+1) - 2^(h+1-r)  (mod 2^64, which is exact for every valid input).
func RowStart(r, h uint8) uint64 {
	var a, b uint64
	if h+1 < 64 {
		a = uint64(1) << (h + 1)
	} // else 2^64 == 0 mod 2^64
	if h+1-r < 64 {
		b = uint64(1) << (h + 1 - r)
	}
	return a - b
}

// Pos is the position of the k-th node of row r.
func Pos(r uint8, k uint64, h uint8) uint64 { return RowStart(r, h) + k }

// RowOf returns the row a position lies in for height h (h+1 if above the top).
func RowOf(p uint64, h uint8) uint8 {
	for r := uint8(0); r <= h; r++ {
		width := uint64(1) << (h - r)
		s := RowStart(r, h)
		if p >= s && p-s < width {
			return r
		}
	}
	return h + 1
}

// OffsetOf returns (row, offset) of p.
func OffsetOf(p uint64, h uint8) (uint8, uint64) {
	r := RowOf(p, h)
	if r > h {
		return r, 0
	}
	return r, p - RowStart(r, h)
}

func ParentPos(p uint64, h uint8) uint64 {
	r, k := OffsetOf(p, h)
	return Pos(r+1, k/2, h)
}

func ChildPos(p uint64, h uint8) (uint64, uint64) {
	r, k := OffsetOf(p, h)
	return Pos(r-1, 2*k, h), Pos(r-1, 2*k+1, h)
}

// Translate maps a position between forest heights keeping row and offset.
func Translate(p uint64, from, to uint8) uint64 {
	r, k := OffsetOf(p, from)
	return Pos(r, k, to)
}

// ---------------------------------------------------------------------------

// Model is the list of (hash, alive) in insertion order.
type Model struct {
	Leaves []Hash
	Alive  []bool
}

func (m *Model) N() uint64 { return uint64(len(m.Leaves)) }

func (m *Model) Clone() *Model {
	return &Model{append([]Hash(nil), m.Leaves...), append([]bool(nil), m.Alive...)}
}

func (m *Model) Add(h Hash) int {
	m.Leaves = append(m.Leaves, h)
	m.Alive = append(m.Alive, true)
	return len(m.Leaves) - 1
}

func (m *Model) Live() []int {
	var out []int
	for i, a := range m.Alive {
		if a {
			out = append(out, i)
		}
	}
	return out
}

func (m *Model) NumLive() int {
	n := 0
	for _, a := range m.Alive {
		if a {
			n++
		}
	}
	return n
}

// ctree is the compressed survivor tree of a perfect slot range.
type ctree struct {
	h    Hash
	leaf int
	l, r *ctree
	srow uint8  // slot range: row
	sk   uint64 // slot range: offset; covers slots [sk<<srow, (sk+1)<<srow)
}

func (m *Model) build(r uint8, k uint64) *ctree {
	if r == 0 {
		if m.Alive[k] {
			return &ctree{h: m.Leaves[k], leaf: int(k), srow: 0, sk: k}
		}
		return nil
	}
	l := m.build(r-1, 2*k)
	rr := m.build(r-1, 2*k+1)
	switch {
	case l != nil && rr != nil:
		return &ctree{h: PH(l.h, rr.h), leaf: -1, l: l, r: rr, srow: r, sk: k}
	case l != nil:
		return l
	case rr != nil:
		return rr
	}
	return nil
}

// RangeHash is the hash of the survivors in slot range (row,k); Zero if none.
func (m *Model) RangeHash(row uint8, k uint64) Hash {
	c := m.build(row, k)
	if c == nil {
		return Zero
	}
	return c.h
}

// Node is a node of the current forest.
type Node struct {
	Pos      uint64
	Row      uint8 // row of Pos
	Hash     Hash
	Leaf     int // slot if a live leaf sits here, else -1
	SRow     uint8
	SK       uint64
	Parent   *Node
	L, R     *Node
	Tree     int
	IsRoot   bool
	TreeRow  uint8
	TreeOffs uint64
}

// Tree is one perfect tree of the forest (binary digit of N).
type Tree struct {
	Row  uint8
	K    uint64 // offset of the root in its row
	Pos  uint64
	Root *Node // nil if the tree has no survivors
}

// Forest is the fully materialised state in TreeRows(N) coordinates.
type Forest struct {
	N       uint64
	H       uint8
	Roots   []Hash
	Trees   []Tree
	Nodes   map[uint64]*Node
	LeafPos map[Hash]uint64
	SlotPos map[int]uint64
}

func place(c *ctree, p uint64, h uint8, par *Node, tree int, f *Forest) *Node {
	row, _ := OffsetOf(p, h)
	n := &Node{Pos: p, Row: row, Hash: c.h, Leaf: c.leaf, SRow: c.srow, SK: c.sk, Parent: par, Tree: tree}
	f.Nodes[p] = n
	if c.leaf >= 0 {
		f.LeafPos[c.h] = p
		f.SlotPos[c.leaf] = p
	}
	if c.l != nil {
		lp, rp := ChildPos(p, h)
		n.L = place(c.l, lp, h, n, tree, f)
		n.R = place(c.r, rp, h, n, tree, f)
	}
	return n
}

// Forest materialises roots, node positions and hashes.
func (m *Model) Forest() *Forest {
	n := m.N()
	h := Rows(n)
	f := &Forest{N: n, H: h, Nodes: map[uint64]*Node{}, LeafPos: map[Hash]uint64{}, SlotPos: map[int]uint64{}}
	start := uint64(0)
	for r := int(h); r >= 0; r-- {
		if (n>>uint(r))&1 == 0 {
			continue
		}
		k := start >> uint(r)
		c := m.build(uint8(r), k)
		p := Pos(uint8(r), k, h)
		t := Tree{Row: uint8(r), K: k, Pos: p}
		if c != nil {
			t.Root = place(c, p, h, nil, len(f.Trees), f)
			t.Root.IsRoot = true
			f.Roots = append(f.Roots, c.h)
		} else {
			f.Roots = append(f.Roots, Zero)
		}
		f.Trees = append(f.Trees, t)
		start += 1 << uint(r)
	}
	return f
}

// RootPosSet returns the set of root positions (including empty roots).
func (f *Forest) RootPosSet() map[uint64]bool {
	s := map[uint64]bool{}
	for _, t := range f.Trees {
		s[t.Pos] = true
	}
	return s
}

// TreeOf returns the tree index whose slot range contains position p (by
// geometry: the tree whose root is an ancestor-or-self of p), or -1.
func (f *Forest) TreeOf(p uint64) int {
	r, k := OffsetOf(p, f.H)
	if r > f.H {
		return -1
	}
	for i, t := range f.Trees {
		if t.Row >= r && (k>>(t.Row-r)) == t.K {
			return i
		}
	}
	return -1
}

// CanonProofPos returns the canonical proof positions (ascending) for a set of
// targets that are positions of existing nodes.  ok=false if some target holds
// no node.
func (f *Forest) CanonProofPos(targets []uint64) ([]uint64, bool) {
	path := map[uint64]bool{}
	for _, t := range targets {
		n := f.Nodes[t]
		if n == nil {
			return nil, false
		}
		for n != nil {
			path[n.Pos] = true
			n = n.Parent
		}
	}
	need := map[uint64]bool{}
	for p := range path {
		n := f.Nodes[p]
		if n.Parent == nil {
			continue
		}
		sib := n.Parent.L
		if sib == n {
			sib = n.Parent.R
		}
		if !path[sib.Pos] {
			need[sib.Pos] = true
		}
	}
	out := make([]uint64, 0, len(need))
	for p := range need {
		out = append(out, p)
	}
	sort.Slice(out, func(a, b int) bool { return out[a] < out[b] })
	return out, true
}

// CanonProof returns the canonical proof (targets in the given order).
func (f *Forest) CanonProof(targets []uint64) (u.Proof, bool) {
	pp, ok := f.CanonProofPos(targets)
	if !ok {
		return u.Proof{}, false
	}
	pr := u.Proof{Targets: append([]uint64(nil), targets...)}
	for _, p := range pp {
		pr.Proof = append(pr.Proof, f.Nodes[p].Hash)
	}
	return pr, true
}

// ProofForHashes builds the canonical proof for live leaf hashes in request order.
func (f *Forest) ProofForHashes(hashes []Hash) (u.Proof, bool) {
	t := make([]uint64, len(hashes))
	for i, h := range hashes {
		p, ok := f.LeafPos[h]
		if !ok {
			return u.Proof{}, false
		}
		t[i] = p
	}
	return f.CanonProof(t)
}

// PathAndProofPositions returns, for targets, the set of positions on the
// paths (ancestors-or-self up to roots) and the set of proof siblings.
func (f *Forest) PathAndProofPositions(targets []uint64) (path, sibs map[uint64]bool) {
	path = map[uint64]bool{}
	sibs = map[uint64]bool{}
	for _, t := range targets {
		n := f.Nodes[t]
		for n != nil {
			path[n.Pos] = true
			if n.Parent != nil {
				s := n.Parent.L
				if s == n {
					s = n.Parent.R
				}
				sibs[s.Pos] = true
			}
			n = n.Parent
		}
	}
	return
}

// ---------------------------------------------------------------------------
// Update data (C11).

type HP struct {
	Pos  uint64
	Hash Hash
}

type ExpUpdate struct {
	PrevNumLeaves uint64
	ToDestroy     []uint64
	NewDel        []HP
	NewAdd        []HP
}

// ExpectUpdateData computes the update data of a block (delSlots, addHashes)
// applied to m0.  m0 is not modified.  The returned model is the post state.
func ExpectUpdateData(m0 *Model, delSlots []int, adds []Hash) (ExpUpdate, *Model) {
	var e ExpUpdate
	e.PrevNumLeaves = m0.N()
	m1 := m0.Clone()
	for _, s := range delSlots {
		m1.Alive[s] = false
	}
	f0 := m0.Forest()
	seen := map[uint64]bool{}
	for _, s := range delSlots {
		n := f0.Nodes[f0.SlotPos[s]]
		for n != nil {
			if !seen[n.Pos] {
				seen[n.Pos] = true
				e.NewDel = append(e.NewDel, HP{n.Pos, m1.RangeHash(n.SRow, n.SK)})
			}
			n = n.Parent
		}
	}
	sort.Slice(e.NewDel, func(a, b int) bool { return e.NewDel[a].Pos < e.NewDel[b].Pos })

	m2 := m1.Clone()
	for _, h := range adds {
		m2.Add(h)
	}
	h2 := Rows(m2.N())
	// ToDestroy: replay the adds one at a time; every empty root met while the
	// carry propagates, in post-block coordinates, in that order.
	{
		cur := m1.Clone()
		n := e.PrevNumLeaves
		for i := range adds {
			f := cur.Forest()
			for hh := uint8(0); (n>>hh)&1 == 1; hh++ {
				for _, t := range f.Trees {
					if t.Row == hh && t.Root == nil {
						e.ToDestroy = append(e.ToDestroy, Pos(hh, t.K, h2))
					}
				}
			}
			cur.Add(adds[i])
			n++
		}
	}
	f2 := m2.Forest()
	got := map[uint64]bool{}
	reaches := func(n *Node) bool { // slot range reaches past PrevNumLeaves
		hi := (n.SK + 1) << n.SRow
		return hi > e.PrevNumLeaves
	}
	for _, n := range f2.Nodes {
		if n.Leaf >= 0 && uint64(n.Leaf) >= e.PrevNumLeaves {
			if !got[n.Pos] {
				got[n.Pos] = true
				e.NewAdd = append(e.NewAdd, HP{n.Pos, n.Hash})
			}
		}
		if n.Parent != nil && reaches(n.Parent) {
			if !got[n.Pos] {
				got[n.Pos] = true
				e.NewAdd = append(e.NewAdd, HP{n.Pos, n.Hash})
			}
		}
	}
	sort.Slice(e.NewAdd, func(a, b int) bool { return e.NewAdd[a].Pos < e.NewAdd[b].Pos })
	return e, m2
}
