package mon

import (
	"bytes"
	"encoding/json"
	"errors"
	"fmt"
	"io"
	"math/bits"
	"math/rand"

	u "github.com/utreexo/utreexo"

	"verifharness/core"
	"verifharness/gen"
	rm "verifharness/refmodel"
)

// C13 — serialization round-trips exactly; damaged streams are never accepted silently.
// Level: fault_enumeration (every truncation offset, every writer-failure
// offset, a fixed set of conforming reader chunkings, per state).

type chunkReader struct {
	b           []byte
	size        func() int
	eofWithData bool
	reads       int
	// zeroEvery > 0: the first call, and every zeroEvery-th after it, returns (0, nil) - which
	// the io.Reader contract allows (and discourages); never twice in a row
	zeroEvery int
}

func (c *chunkReader) Read(p []byte) (int, error) {
	c.reads++
	if len(p) == 0 {
		return 0, nil
	}
	if c.zeroEvery > 0 && (c.reads-1)%c.zeroEvery == 0 && len(c.b) > 0 {
		return 0, nil
	}
	if len(c.b) == 0 {
		return 0, io.EOF
	}
	n := c.size()
	if n < 1 {
		n = 1
	}
	if n > len(p) {
		n = len(p)
	}
	if n > len(c.b) {
		n = len(c.b)
	}
	copy(p, c.b[:n])
	c.b = c.b[n:]
	if len(c.b) == 0 && c.eofWithData {
		return n, io.EOF
	}
	return n, nil
}

type failWriter struct {
	left    int
	partial bool
	w       bytes.Buffer
}

var errSink = errors.New("sink failed")

// countingReader counts the bytes the wrapped reader hands out.
type countingReader struct {
	r io.Reader
	n int64
}

func (c *countingReader) Read(p []byte) (int, error) {
	k, err := c.r.Read(p)
	c.n += int64(k)
	return k, err
}

func (f *failWriter) Write(p []byte) (int, error) {
	if len(p) <= f.left {
		f.left -= len(p)
		return f.w.Write(p)
	}
	if f.partial && f.left > 0 {
		n := f.left
		f.w.Write(p[:n])
		f.left = 0
		return n, errSink
	}
	f.left = 0
	return 0, errSink
}

type readerKind struct {
	name string
	mk   func(b []byte, rng *rand.Rand) io.Reader
}

var readerKinds = []readerKind{
	{"whole", func(b []byte, _ *rand.Rand) io.Reader { return bytes.NewReader(b) }},
	{"1-byte", func(b []byte, _ *rand.Rand) io.Reader { return &chunkReader{b: b, size: func() int { return 1 }} }},
	{"7-byte", func(b []byte, _ *rand.Rand) io.Reader { return &chunkReader{b: b, size: func() int { return 7 }} }},
	{"halves", func(b []byte, _ *rand.Rand) io.Reader {
		h := len(b)/2 + 1
		return &chunkReader{b: b, size: func() int { return h }}
	}},
	{"random-1..40", func(b []byte, rng *rand.Rand) io.Reader {
		return &chunkReader{b: b, size: func() int { return 1 + rng.Intn(40) }}
	}},
	{"data-with-EOF", func(b []byte, _ *rand.Rand) io.Reader {
		return &chunkReader{b: b, size: func() int { return 1 << 30 }, eofWithData: true}
	}},
	{"random+data-with-EOF", func(b []byte, rng *rand.Rand) io.Reader {
		return &chunkReader{b: b, size: func() int { return 1 + rng.Intn(64) }, eofWithData: true}
	}},
	// added after seeded change C13i (one field read with r.Read instead of io.ReadFull)
	{"zero-length-reads", func(b []byte, rng *rand.Rand) io.Reader {
		return &chunkReader{b: b, size: func() int { return 1 + rng.Intn(9) }, zeroEvery: 3}
	}},
}

func init() {
	core.Register(&core.Monitor{
		ID:    "C13",
		Level: "fault_enumeration",
		Rule: "cases = end states of seeded forest scenarios (blocks, undo, verify-remember, prune) for Pollard, full MapPollard (TotalRows in {0,5,63,random}) and partial MapPollard. Per state and instance the fault space is enumerated completely: " +
			"7 conforming reader chunkings (whole, 1-byte, 7-byte, halves, random 1..40, data-with-EOF, random+data-with-EOF); truncation at EVERY offset 0..len-1 (whole reader, plus 1-byte reader at every 5th offset); " +
			"writer failure at EVERY offset 0..len-1 with and without a partial write (suite 'big': forests of 200-650 leaves, streams of tens of KB; for streams over 8 KB the fault offsets are the first and last 300, every 13th and those around every multiple of 512). Oracle: restored instance observationally identical (roots, leaf count, every leaf position, GetHash of every position, full-set and singleton proofs; MapPollard also Nodes/CachedLeaves incl. Remember flags) " +
			"and identical under 3 further blocks + undo; byte counts equal bytes consumed/produced; SerializeSize equals bytes written; prefix -> error or identical state; failing sink -> error; no panic. " +
			"An evaluation = one restore/write attempt judged. Non-trivial = a state with deleted leaves or non-default remember flags; distinct = distinct (alive pattern, instance kind, stream length).",
		Assumptions: []string{"SHA-512/256 collision freedom", "reference model correct", "byte counts are only judged on success paths",
			"the Full flag of a MapPollard is not part of the stream; the restorer is constructed with the same flag"},
		MinDistinct: 20,
		Plan: func(tier string) []core.Suite {
			if tier == "thorough" {
				return []core.Suite{{Name: "states", N: 20000, CaseTimeout: 600}, {Name: "big", N: 600, CaseTimeout: 900}, {Name: "fromroots", N: 4000}}
			}
			return []core.Suite{{Name: "states", N: 240, CaseTimeout: 600}, {Name: "big", N: 8, CaseTimeout: 900}, {Name: "fromroots", N: 24}}
		},
		Run: func(c *core.Ctx) {
			tag := uint64(c.Seed)<<32 | uint64(c.Index)
			if c.Suite == "fromroots" {
				c13FromRoots(c)
				return
			}
			if c.Suite == "big" {
				// streams of tens of kilobytes: buffer- and block-size effects
				cfgs := []InstCfg{{Kind: "pollard"}, {"mapfull", []uint8{0, 63, 9}[c.Index%3]}, {"mappartial", []uint8{63, 0}[c.Index%2]}}
				p := gen.Profile{MinBlocks: 3, MaxBlocks: 8, MaxLeaves: 200 + 150*(c.Index%4), MaxAdds: 120, RememberMode: 2}
				s := genForestScenario(c.Rng, tag|1<<57, cfgs, fGenOpts{Profile: p, Rounds: 1, Undo: c.Index%3 == 0, PartialOps: false})
				s.FromRootsAt = -1
				c13Check(c, s)
				return
			}
			cfgs := []InstCfg{{Kind: "pollard"}, {"mapfull", []uint8{0, 5, 63}[c.Index%3]}, {"mapfull", uint8(c.Rng.Intn(64))}, {"mappartial", []uint8{63, 0, 2}[c.Index%3]}}
			p := gen.Tiny
			p.MaxLeaves = 30
			if c.Index%4 == 0 {
				p.MaxLeaves = 70
			}
			p.RememberMode = 1
			s := genForestScenario(c.Rng, tag, cfgs, fGenOpts{Profile: p, Rounds: 1 + c.Rng.Intn(2), Undo: c.Index%2 == 0, PartialOps: c.Index%3 != 0})
			s.FromRootsAt = -1
			c13Check(c, s)
		},
		Replay: func(c *core.Ctx, raw json.RawMessage) {
			var s fScenario
			if err := json.Unmarshal(raw, &s); err != nil {
				c.Inconclusive("bad scenario")
				return
			}
			c13Check(c, s)
		},
	})
}

// c13FromRoots: map forests that were started from bare roots at leaf counts no history
// can reach (up to 2^63, the capacity of the 63 allocated rows) are written and restored.
func c13FromRoots(c *core.Ctx) {
	r := c.Rng
	var n uint64
	switch c.Index % 6 {
	case 0:
		n = uint64(1) << 63
	case 1:
		n = uint64(1)<<63 - 1
	case 2:
		n = uint64(1) << uint(1+r.Intn(62))
	case 3:
		n = uint64(1)<<uint(2+r.Intn(61)) + uint64(1+r.Intn(3))
	case 4:
		n = r.Uint64()>>1 | 1
	default:
		n = uint64(1 + r.Intn(1<<20))
	}
	full := c.Index%2 == 0
	tag := uint64(c.Seed)<<32 | uint64(c.Index) | 1<<50
	var roots []Hash
	for i := 0; i < bits.OnesCount64(n); i++ {
		if r.Intn(7) == 0 {
			roots = append(roots, rm.Zero)
		} else {
			roots = append(roots, rm.FreshHash(tag, uint64(i)))
		}
	}
	c.SetScenario(map[string]any{"suite": "fromroots", "num_leaves": n, "full": full, "roots": hxs(roots)})
	site := "mappartial"
	if full {
		site = "mapfull"
	}
	mp := u.NewMapPollardFromRoots(cloneHashes(roots), n, full)
	roundTrip := func(when string) bool {
		var buf bytes.Buffer
		c.Eval(1)
		wn, err := mp.Write(&buf)
		if err != nil || wn != buf.Len() {
			c.Violate(site+".Write", "write-error-on-good-sink", "from-roots", fmt.Sprintf("%s: %d leaves: wrote %d of %d bytes, err %v", when, mp.NumLeaves, wn, buf.Len(), err))
			return false
		}
		m2 := u.NewMapPollard(full)
		c.Eval(1)
		rn, err := m2.Read(bytes.NewReader(buf.Bytes()))
		if err != nil {
			c.Violate(site+".Read", "valid-stream-rejected", "from-roots", fmt.Sprintf("%s: forest of %d leaves (%d roots): %v", when, mp.NumLeaves, len(mp.GetRoots()), err))
			return false
		}
		if rn != buf.Len() {
			c.Violate(site+".Read", "byte-count", "from-roots", fmt.Sprintf("%s: reported %d of %d bytes", when, rn, buf.Len()))
			return false
		}
		if m2.GetNumLeaves() != mp.GetNumLeaves() || !eqHashes(m2.GetRoots(), mp.GetRoots()) || m2.TotalRows != mp.TotalRows {
			c.Violate(site+".Read", "restored-state-differs", "from-roots", fmt.Sprintf("%s: leaves %d vs %d, roots %s vs %s", when, m2.GetNumLeaves(), mp.GetNumLeaves(), hashesStr(m2.GetRoots()), hashesStr(mp.GetRoots())))
			return false
		}
		c.Distinct(core.FP("fromroots", n, full, when))
		return true
	}
	if !roundTrip("as constructed") {
		return
	}
	c.Max("max_from_roots_leaves_log2", bits.Len64(n))
	if n < uint64(1)<<63 && !hasZero(roots) {
		// one more leaf (for 2^63-1 this fills the forest to its capacity).  Not with an empty
		// root: MapPollard.addSingle then walks every possible descendant position of the
		// carry (2^row of them), which for these heights does not finish; no property states a
		// time bound for Modify, so that is noted here and not judged.
		add := []u.Leaf{{Hash: rm.FreshHash(tag, 1<<30), Remember: true}}
		if err := mp.Modify(add, nil, u.Proof{}); err != nil {
			c.Violate(site+".Modify", "setup:error-on-honest-block", "from-roots", fmt.Sprintf("adding one leaf to a forest of %d leaves: %v", n, err))
			return
		}
		roundTrip("after one more leaf")
	}
	if c.WantSample("fromroots") {
		c.Sample("fromroots", map[string]any{"num_leaves": n, "full": full, "roots": len(roots)})
	}
}

// writeInst serialises an instance.
func writeInst(in *Inst, w io.Writer) (int64, error) {
	if in.P != nil {
		return in.P.WriteTo(w)
	}
	n, err := in.MP.Write(w)
	return int64(n), err
}

// restoreInst restores an instance of the same kind from r.
func restoreInst(orig *Inst, r io.Reader) (*Inst, int64, error) {
	out := &Inst{Cfg: orig.Cfg, Name: orig.Name + "(restored)", Rem: map[Hash]bool{}}
	for h := range orig.Rem {
		out.Rem[h] = true
	}
	if orig.P != nil {
		n, p, err := u.RestorePollardFrom(r)
		if err != nil {
			return nil, n, err
		}
		out.P = p
		out.U = p
		return out, n, nil
	}
	m := u.NewMapPollard(orig.MP.Full)
	n, err := m.Read(r)
	if err != nil {
		return nil, int64(n), err
	}
	out.MP = &m
	out.U = &m
	return out, int64(n), nil
}

// obsEqual compares two instances observationally ("" = equal).
func obsEqual(a, b *Inst, m *rm.Model, f *rm.Forest, gone ...Hash) string {
	if !eqHashes(a.U.GetRoots(), b.U.GetRoots()) || a.U.GetNumLeaves() != b.U.GetNumLeaves() {
		return fmt.Sprintf("roots/leaf count differ: %d %s vs %d %s", a.U.GetNumLeaves(), hashesStr(a.U.GetRoots()), b.U.GetNumLeaves(), hashesStr(b.U.GetRoots()))
	}
	// leaves that are no longer part of the history (their block was undone): same answer, and
	// the same provability, from both
	for _, h := range gone {
		pa, oka := a.U.GetLeafPosition(h)
		pb, okb := b.U.GetLeafPosition(h)
		if pa != pb || oka != okb {
			return fmt.Sprintf("GetLeafPosition of %s, a leaf of an undone block: (%d,%v) vs (%d,%v)", hs(h), pa, oka, pb, okb)
		}
		qa, ea := a.U.Prove([]Hash{h})
		qb, eb := b.U.Prove([]Hash{h})
		if (ea == nil) != (eb == nil) || !eqProof(qa, qb) {
			return fmt.Sprintf("Prove of %s, a leaf of an undone block: %s (%v) vs %s (%v)", hs(h), proofStr(qa), ea, proofStr(qb), eb)
		}
	}
	for s, h := range m.Leaves {
		pa, oka := a.U.GetLeafPosition(h)
		pb, okb := b.U.GetLeafPosition(h)
		if pa != pb || oka != okb {
			return fmt.Sprintf("GetLeafPosition of slot %d (alive=%v): (%d,%v) vs (%d,%v)", s, m.Alive[s], pa, oka, pb, okb)
		}
	}
	top := uint64(2) << f.H
	for p := uint64(0); p < top; p++ {
		if a.U.GetHash(p) != b.U.GetHash(p) {
			return fmt.Sprintf("GetHash(%d): %s vs %s", p, hs(a.U.GetHash(p)), hs(b.U.GetHash(p)))
		}
	}
	var prov []Hash
	for _, s := range m.Live() {
		if a.Partial() && !a.Rem[m.Leaves[s]] {
			continue
		}
		prov = append(prov, m.Leaves[s])
	}
	if len(prov) > 0 {
		pa, ea := a.U.Prove(cloneHashes(prov))
		pb, eb := b.U.Prove(cloneHashes(prov))
		if (ea == nil) != (eb == nil) || !eqProof(pa, pb) {
			return fmt.Sprintf("full-set proof: %s (%v) vs %s (%v)", proofStr(pa), ea, proofStr(pb), eb)
		}
		for _, h := range prov {
			pa, ea := a.U.Prove([]Hash{h})
			pb, eb := b.U.Prove([]Hash{h})
			if (ea == nil) != (eb == nil) || !eqProof(pa, pb) {
				return fmt.Sprintf("proof of %s: %s (%v) vs %s (%v)", hs(h), proofStr(pa), ea, proofStr(pb), eb)
			}
		}
	}
	if a.MP != nil {
		if a.MP.TotalRows != b.MP.TotalRows {
			return fmt.Sprintf("TotalRows %d vs %d", a.MP.TotalRows, b.MP.TotalRows)
		}
		if a.MP.Nodes.Length() != b.MP.Nodes.Length() || a.MP.CachedLeaves.Length() != b.MP.CachedLeaves.Length() {
			return fmt.Sprintf("map sizes: nodes %d vs %d, cached %d vs %d", a.MP.Nodes.Length(), b.MP.Nodes.Length(), a.MP.CachedLeaves.Length(), b.MP.CachedLeaves.Length())
		}
		msg := ""
		a.MP.Nodes.ForEach(func(p uint64, l Leaf) error {
			x, ok := b.MP.Nodes.Get(p)
			if !ok || x.Hash != l.Hash {
				msg = fmt.Sprintf("node at %d: %v vs %v (found %v)", p, l, x, ok)
			} else if x.Remember != l.Remember {
				msg = fmt.Sprintf("Remember flag of node at %d: %v vs %v", p, l.Remember, x.Remember)
			}
			return nil
		})
		if msg != "" {
			return msg
		}
		a.MP.CachedLeaves.ForEach(func(h Hash, p uint64) error {
			x, ok := b.MP.CachedLeaves.Get(h)
			if !ok || x != p {
				msg = fmt.Sprintf("cached leaf %s: %d vs %d (found %v)", hs(h), p, x, ok)
			}
			return nil
		})
		if msg != "" {
			return msg
		}
	} else {
		if a.P.NumDels != b.P.NumDels || len(a.P.NodeMap) != len(b.P.NodeMap) {
			return fmt.Sprintf("NumDels %d vs %d, len(NodeMap) %d vs %d", a.P.NumDels, b.P.NumDels, len(a.P.NodeMap), len(b.P.NodeMap))
		}
	}
	return ""
}

func safely(f func()) (pan any) {
	defer func() {
		if r := recover(); r != nil {
			pan = r
		}
	}()
	f()
	return nil
}

func c13Check(c *core.Ctx, s fScenario) {
	c.SetScenario(s)
	// The size prediction is asked for along the way too - after some operations and not after others
	// (round 10, seeded change C13j: a prediction memoised per (leaves added, leaves deleted), stale once a
	// block is undone and a competing block with the same counts is applied).
	w := runForest(c, s, func(site, clause, trigger, detail string) { c.Violate(site, "setup:"+clause, trigger, detail) }, func(st *fState) {
		if st.Quiet || c.CaseViolations() > 0 {
			return
		}
		for _, in := range st.W.Insts {
			if in.P == nil {
				continue
			}
			c.Eval(1)
			sz := in.P.SerializeSize()
			var cw countingDiscard
			n, err := in.P.WriteTo(&cw)
			if err != nil || n != cw.n {
				c.Violate("Pollard.WriteTo", "byte-count", "along-the-scenario", fmt.Sprintf("%s: reported %d bytes, err %v, sink saw %d", st.When, n, err, cw.n))
				return
			}
			if int64(sz) != cw.n {
				c.Violate("Pollard.SerializeSize", "size-prediction", "along-the-scenario", fmt.Sprintf("%s: predicted %d, wrote %d", st.When, sz, cw.n))
				return
			}
			c.Count("size_predictions_checked_along_scenarios", 1)
		}
	})
	if c.CaseViolations() > 0 || w == nil {
		return
	}
	f := w.M.Forest()
	for _, in := range w.Insts {
		c13Instance(c, w, in, f)
		if c.CaseViolations() > 0 {
			return
		}
	}
	// evolution: restore every instance once more and run both originals and
	// restored copies through 3 further blocks and one undo
	orig := w.Insts
	var restored []*Inst
	for _, in := range orig {
		var buf bytes.Buffer
		if _, err := writeInst(in, &buf); err != nil {
			return
		}
		r, _, err := restoreInst(in, bytes.NewReader(buf.Bytes()))
		if err != nil {
			return // reported by c13Instance already
		}
		restored = append(restored, r)
	}
	w.Insts = append(append([]*Inst(nil), orig...), restored...)
	var gone []Hash
	undoOn := func(rec *BlockRec, when string) bool {
		for _, in := range w.Insts {
			if err := in.U.Undo(uint64(len(rec.Adds)), cloneProof(rec.Proof), cloneHashes(rec.DelHashes), cloneHashes(rec.PrevRoots)); err != nil {
				c.Violate(in.Cfg.Kind+".Undo", "evolve:undo-error", "after-restore", fmt.Sprintf("%s: %s: %v", when, in.Name, err))
				return false
			}
			if in.Partial() {
				for _, h := range rec.AddHashes {
					delete(in.Rem, h)
				}
				for _, h := range rec.DelHashes {
					in.Rem[h] = true
				}
			}
		}
		w.M = rec.Before.Clone()
		w.Stump = u.Stump{Roots: cloneHashes(rec.PrevRoots), NumLeaves: rec.PrevN}
		gone = append(gone, rec.AddHashes...)
		return true
	}
	// "evolves identically under ... undo": every other case first takes back the last block that
	// was applied BEFORE the forest was written (added after seeded change C13g: what a restored
	// forest does with a block it was not there for)
	if c.Index%2 == 0 && len(w.Recs) > 0 && s.FromRootsAt < 0 {
		rec := w.Recs[len(w.Recs)-1]
		if !undoOn(rec, "undo of the last block applied before the forest was written") {
			return
		}
		w.Recs = w.Recs[:len(w.Recs)-1]
		c.Count("evolutions_starting_with_an_undo_of_a_block_older_than_the_stream", 1)
		if !c13CompareAll(c, w, orig, restored, "after undoing the last block applied before the forest was written", gone...) {
			return
		}
	}
	var last *BlockRec
	for i := 0; i < 3; i++ {
		b := gen.NextBlock(c.Rng, w.M, gen.Tiny, len(w.M.Leaves) == 0)
		b.Remember = make([]bool, b.Adds)
		for j := range b.Remember {
			b.Remember[j] = c.Rng.Intn(2) == 0
		}
		rec, ok := w.ApplyBlock(b, func(site, clause, trigger, detail string) {
			c.Violate(site, "evolve:"+clause, "after-restore", fmt.Sprintf("further block %d: %s", i, detail))
		})
		if !ok {
			return
		}
		last = rec
		if !c13CompareAll(c, w, orig, restored, fmt.Sprintf("after further block %d", i), gone...) {
			return
		}
	}
	if last != nil {
		if !undoOn(last, "undo of the last further block") {
			return
		}
		c13CompareAll(c, w, orig, restored, "after undo of the last further block", gone...)
	}
	c.Count("evolutions_checked", 1)
}

func c13CompareAll(c *core.Ctx, w *World, orig, restored []*Inst, when string, gone ...Hash) bool {
	f := w.M.Forest()
	for i := range orig {
		c.Eval(1)
		if !eqHashes(restored[i].U.GetRoots(), f.Roots) || restored[i].U.GetNumLeaves() != f.N {
			c.Violate(restoreSite(orig[i]), "evolves-differently", "vs-reference", fmt.Sprintf("%s: restored %s has roots %s, reference %s", when, orig[i].Name, hashesStr(restored[i].U.GetRoots()), hashesStr(f.Roots)))
			return false
		}
		if msg := obsEqual(orig[i], restored[i], w.M, f, gone...); msg != "" {
			c.Violate(restoreSite(orig[i]), "evolves-differently", "vs-original", fmt.Sprintf("%s: %s: %s", when, orig[i].Name, msg))
			return false
		}
	}
	return true
}

func restoreSite(in *Inst) string {
	if in.P != nil {
		return "RestorePollardFrom"
	}
	return in.Cfg.Kind + ".Read"
}

func writeSite(in *Inst) string {
	if in.P != nil {
		return "Pollard.WriteTo"
	}
	return in.Cfg.Kind + ".Write"
}

func c13Instance(c *core.Ctx, w *World, in *Inst, f *rm.Forest) {
	desc := fmt.Sprintf("%s (N=%d, %d live)", in.Name, f.N, w.M.NumLive())
	var buf bytes.Buffer
	var n int64
	var err error
	c.Eval(1)
	if pan := safely(func() { n, err = writeInst(in, &buf) }); pan != nil {
		c.Violate(writeSite(in), "panic", "", fmt.Sprintf("%s: %v", desc, pan))
		return
	}
	if err != nil {
		c.Violate(writeSite(in), "write-error-on-good-sink", "", fmt.Sprintf("%s: %v", desc, err))
		return
	}
	stream := append([]byte(nil), buf.Bytes()...)
	if n != int64(len(stream)) {
		c.Violate(writeSite(in), "byte-count", "", fmt.Sprintf("%s: reported %d bytes, produced %d", desc, n, len(stream)))
		return
	}
	if in.P != nil {
		c.Eval(1)
		if sz := in.P.SerializeSize(); sz != len(stream) {
			c.Violate("Pollard.SerializeSize", "size-prediction", "", fmt.Sprintf("%s: predicted %d, wrote %d", desc, sz, len(stream)))
			return
		}
	}
	c.Max("max_stream_bytes", len(stream))
	// fault offsets: every offset for streams up to 8 KB; for longer streams every
	// offset in the first and last 300 bytes, around every multiple of 512, and every 13th
	offsets := make([]int, 0, len(stream))
	for off := 0; off < len(stream); off++ {
		if len(stream) <= 8192 || off < 300 || off >= len(stream)-300 || off%13 == 0 || off%512 <= 2 || off%512 >= 510 {
			offsets = append(offsets, off)
		}
	}
	if len(offsets) < len(stream) {
		c.Count("streams_with_strided_fault_offsets", 1)
	} else {
		c.Count("streams_with_every_fault_offset", 1)
	}
	// 1. reader chunkings
	for _, rk := range readerKinds {
		c.Eval(1)
		var r *Inst
		var rn int64
		var rerr error
		if pan := safely(func() { r, rn, rerr = restoreInst(in, rk.mk(stream, c.Rng)) }); pan != nil {
			c.Violate(restoreSite(in), "panic", "reader="+rk.name, fmt.Sprintf("%s: %v", desc, pan))
			return
		}
		if rerr != nil {
			c.Violate(restoreSite(in), "valid-stream-rejected", "reader="+rk.name, fmt.Sprintf("%s: %d-byte stream: %v", desc, len(stream), rerr))
			return
		}
		if rn != int64(len(stream)) {
			c.Violate(restoreSite(in), "byte-count", "reader="+rk.name, fmt.Sprintf("%s: reported %d bytes consumed, stream has %d", desc, rn, len(stream)))
			return
		}
		if msg := obsEqual(in, r, w.M, f); msg != "" {
			c.Violate(restoreSite(in), "restored-state-differs", "reader="+rk.name, fmt.Sprintf("%s: %s", desc, msg))
			return
		}
		c.Count("restores_by_reader:"+rk.name, 1)
	}
	// 1b. two records back to back in one reader (added after seeded change C13h): the count a
	// restore reports is the number of bytes it took from the caller's reader - measured at the
	// reader - so the next record starts exactly where this one ended
	double := append(append([]byte(nil), stream...), stream...)
	for _, rk := range readerKinds {
		c.Eval(1)
		cr := &countingReader{r: rk.mk(double, c.Rng)}
		var r1, r2 *Inst
		var n1, n2 int64
		var e1, e2 error
		if pan := safely(func() { r1, n1, e1 = restoreInst(in, cr) }); pan != nil {
			c.Violate(restoreSite(in), "panic", "two-records,reader="+rk.name, fmt.Sprintf("%s: %v", desc, pan))
			return
		}
		taken := cr.n
		if e1 != nil || n1 != int64(len(stream)) || taken != int64(len(stream)) {
			c.Violate(restoreSite(in), "byte-count", "two-records,reader="+rk.name, fmt.Sprintf("%s: first of two %d-byte records: reported %d bytes, took %d bytes from the reader, err=%v", desc, len(stream), n1, taken, e1))
			return
		}
		if pan := safely(func() { r2, n2, e2 = restoreInst(in, cr) }); pan != nil {
			c.Violate(restoreSite(in), "panic", "two-records,reader="+rk.name, fmt.Sprintf("%s: second record: %v", desc, pan))
			return
		}
		if e2 != nil || n2 != int64(len(stream)) {
			c.Violate(restoreSite(in), "valid-stream-rejected", "two-records,reader="+rk.name, fmt.Sprintf("%s: second of two records: reported %d bytes, err=%v", desc, n2, e2))
			return
		}
		for _, r := range []*Inst{r1, r2} {
			if msg := obsEqual(in, r, w.M, f); msg != "" {
				c.Violate(restoreSite(in), "restored-state-differs", "two-records,reader="+rk.name, fmt.Sprintf("%s: %s", desc, msg))
				return
			}
		}
		c.Count("restores_of_two_records_from_one_reader", 1)
	}
	// 2. truncation at every offset
	for _, cut := range offsets {
		for variant := 0; variant < 2; variant++ {
			if variant == 1 && cut%5 != 0 {
				continue
			}
			var rd io.Reader = bytes.NewReader(stream[:cut])
			rname := "whole"
			if variant == 1 {
				rd = &chunkReader{b: stream[:cut], size: func() int { return 1 }}
				rname = "1-byte"
			}
			c.Eval(1)
			var r *Inst
			var rerr error
			if pan := safely(func() { r, _, rerr = restoreInst(in, rd) }); pan != nil {
				c.Violate(restoreSite(in), "panic", "truncated", fmt.Sprintf("%s: stream cut at %d of %d (%s reader): %v", desc, cut, len(stream), rname, pan))
				return
			}
			if rerr == nil {
				msg := ""
				if pan := safely(func() { msg = obsEqual(in, r, w.M, f) }); pan != nil {
					msg = fmt.Sprintf("restored instance panics when queried: %v", pan)
				}
				if msg != "" {
					c.Violate(restoreSite(in), "prefix-accepted-with-different-state", "truncated", fmt.Sprintf("%s: stream cut at %d of %d (%s reader) accepted without error: %s", desc, cut, len(stream), rname, msg))
					return
				}
				c.Count("prefixes_accepted_with_identical_state", 1)
			}
			c.Count("truncations", 1)
		}
	}
	// 3. writer failure at every offset
	for _, off := range offsets {
		for _, partial := range []bool{false, true} {
			fw := &failWriter{left: off, partial: partial}
			c.Eval(1)
			var werr error
			if pan := safely(func() { _, werr = writeInst(in, fw) }); pan != nil {
				c.Violate(writeSite(in), "panic", "failing-sink", fmt.Sprintf("%s: sink failing at %d: %v", desc, off, pan))
				return
			}
			if werr == nil {
				c.Violate(writeSite(in), "failing-sink-not-reported", "failing-sink", fmt.Sprintf("%s: sink failed at offset %d of %d (partial=%v) but Write returned nil", desc, off, len(stream), partial))
				return
			}
			c.Count("writer_failures", 1)
		}
	}
	if w.M.NumLive() != len(w.M.Leaves) || in.Partial() {
		c.Distinct(core.FP(w.M.Alive, in.Cfg.Kind, len(stream)))
	}
	if c.WantSample(in.Cfg.Kind) {
		c.Sample(in.Cfg.Kind, map[string]any{"instance": in.Name, "alive": aliveStr(w.M.Alive), "stream_bytes": len(stream),
			"truncation_points": len(offsets), "writer_failure_points": 2 * len(offsets), "reader_chunkings": len(readerKinds)})
	}
}

// countingDiscard counts the bytes it is given and keeps none.
type countingDiscard struct{ n int64 }

func (d *countingDiscard) Write(p []byte) (int, error) { d.n += int64(len(p)); return len(p), nil }
