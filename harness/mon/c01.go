package mon

import (
	"encoding/json"
	"fmt"
	"math/rand"

	u "github.com/utreexo/utreexo"

	"verifharness/core"
	"verifharness/gen"
	rm "verifharness/refmodel"
)

// C01 — all implementations agree on the roots, for every history; the roots
// equal the reference value; independent of batching.

func c01Plan(tier string) histPlan {
	if tier == "thorough" {
		return histPlan{Enum: gen.EnumParams{MaxAdds: []int{6, 4, 3}}, Rand: 500000, Tall: 800}
	}
	return histPlan{Enum: gen.EnumParams{MaxAdds: []int{4, 3, 2}}, Rand: 12000, Tall: 16}
}

func init() {
	core.Register(&core.Monitor{
		ID:    "C01",
		Level: "exploration",
		Rule: "cases = block histories from the empty accumulator: 'enum' = every history of the small scope (all deletion subsets, all addition counts), " +
			"'rand'/'tall' = seeded random histories with hostile deletion modes; each is run on Stump, Pollard and 4-6 MapPollard configurations (full/partial, TotalRows rotated over 0..63) " +
			"and again under two other batchings. An evaluation = one comparison of (leaf count, ordered roots) with the reference model. " +
			"A case is non-trivial if some block deletes a leaf; distinct = distinct (deletion sets, addition counts, configuration) fingerprints.",
		Assumptions: []string{"SHA-512/256 collision freedom", "reference model (refmodel) is correct; it shares no position arithmetic with the library",
			"deletion proofs handed to the implementations are the reference model's canonical proofs"},
		MinDistinct: 50,
		Plan: func(tier string) []core.Suite {
			n := 2000
			if tier == "thorough" {
				n = 200000
			}
			return append(c01Plan(tier).suites(), core.Suite{Name: "collide", N: n}, core.Suite{Name: "ops", N: 2 * n})
		},
		Run: func(c *core.Ctx) {
			if c.Suite == "ops" {
				// "every reachable history" also runs through the other state-changing entry points:
				// undo, re-applied blocks, Verify(remember) of arbitrary live leaves, Ingest, Prune and
				// refused calls between the blocks (added after seeded change C01g, which needs a leaf
				// remembered while it is a lone root and deleted later without its proof being shown again)
				prof := gen.Tiny
				if c.Index%3 == 0 {
					prof = gen.Small
				}
				prof.RememberMode = 1
				tag := uint64(c.Seed)<<32 | uint64(c.Index) | 1<<51
				cfgs := []InstCfg{{Kind: "pollard"}, {"mapfull", []uint8{0, 5, 63}[c.Index%3]}, {"mappartial", []uint8{63, 0, 5}[c.Index%3]}, {"mappartial", []uint8{0, 63, 2}[c.Index%3]}}
				s := genForestScenario(c.Rng, tag, cfgs, fGenOpts{Profile: prof, Rounds: 1 + c.Rng.Intn(3), Undo: c.Index%2 == 0, PartialOps: true, ForceEmptyRootOverwrite: c.Index%4 == 0, Redo: c.Index%4 == 2, Reload: c.Index%4 == 1, JunkProofs: c.Index%4 == 3})
				c01Ops(c, s)
				return
			}
			if c.Suite == "collide" {
				// one added leaf is the hash of an internal node of the forest it is added to: still a
				// distinct non-empty leaf, but every hash-keyed index of an implementation now sees the
				// same key for a leaf and for an internal node
				p := gen.Small
				if c.Index%2 == 0 {
					p = gen.Tiny
				}
				p.RememberMode = 1
				h := gen.RandomHistory(c.Rng, p, uint64(c.Seed)<<32|uint64(c.Index)|1<<54)
				bi := 1 + c.Rng.Intn(len(h.Blocks))
				c01Check(c, histScenario{History: h, Cfgs: StdCfgs(c.Rng, c.Tier, c.Index), Extra: []int{bi % len(h.Blocks), c.Rng.Intn(4), c.Rng.Intn(1000)}})
				return
			}
			h := c01Plan(c.Tier).history(c)
			cfgs := StdCfgs(c.Rng, c.Tier, c.Index)
			if c.Suite == "tall" {
				cfgs = []InstCfg{{Kind: "pollard"}, {"mapfull", 0}, {"mapfull", uint8(12 + c.Index%52)}, {"mappartial", 63}}
			}
			mode := ""
			if c.Suite == "rand" {
				mode = map[int]string{7: "readd", 8: "prefix"}[c.Index%10]
			}
			c01Check(c, histScenario{History: h, Cfgs: cfgs, LeafMode: mode})
		},
		Replay: func(c *core.Ctx, raw json.RawMessage) {
			var fs fScenario
			if json.Unmarshal(raw, &fs) == nil && len(fs.Ops) > 0 {
				c01Ops(c, fs)
				return
			}
			s, err := parseHistScenario(raw)
			if err != nil {
				c.Inconclusive("bad scenario: " + err.Error())
				return
			}
			if len(s.Cfgs) == 0 {
				s.Cfgs = StdCfgs(rand.New(rand.NewSource(1)), "quick", 0)
			}
			c01Check(c, s)
		},
	})
}

func checkRoots(c *core.Ctx, w *World, f *rm.Forest, when string, fail failFn) {
	c.Eval(1)
	if w.Stump.NumLeaves != f.N || !eqHashes(w.Stump.Roots, f.Roots) {
		fail("Stump.Update", "roots-differ-from-reference", "", fmt.Sprintf("%s: stump N=%d roots=%s; reference N=%d roots=%s",
			when, w.Stump.NumLeaves, hashesStr(w.Stump.Roots), f.N, hashesStr(f.Roots)))
	}
	for _, in := range w.Insts {
		c.Eval(1)
		got := in.U.GetRoots()
		n := in.U.GetNumLeaves()
		if n != f.N || !eqHashes(got, f.Roots) {
			fail(in.Cfg.Kind+".Modify", "roots-differ-from-reference", "", fmt.Sprintf("%s: %s N=%d roots=%s; reference N=%d roots=%s",
				when, in.Name, n, hashesStr(got), f.N, hashesStr(f.Roots)))
		}
	}
}

// c01Ops: roots and leaf count of every implementation after every operation of a forest
// scenario (blocks, undo, re-applied blocks, remember / ingest / prune, refused calls).
func c01Ops(c *core.Ctx, s fScenario) {
	c.SetScenario(s)
	sawDel := false
	fail := func(site, clause, trigger, detail string) { c.Violate(site, clause, trigger, detail) }
	runForest(c, s, func(site, clause, trigger, detail string) { c.Violate(site, "setup:"+clause, trigger, detail) }, func(st *fState) {
		if c.CaseViolations() > 0 {
			return
		}
		if st.Op.Kind == "block" && len(st.Op.Block.Dels) > 0 {
			sawDel = true
		}
		if st.Quiet {
			return
		}
		trig := "after-" + st.Op.Kind
		checkRoots(c, st.W, st.F, st.When, func(site, clause, _, detail string) { fail(site, clause, trig, detail) })
		c.Count("states_after_"+st.Op.Kind, 1)
	})
	if sawDel {
		c.Distinct(core.FP(opsShape(s), len(s.Cfgs)))
	}
	if c.WantSample(c.Suite) {
		c.Sample(c.Suite, s)
	}
}

func c01Check(c *core.Ctx, s histScenario) {
	c.SetScenario(s)
	fail := func(site, clause, trigger, detail string) { c.Violate(site, clause, trigger, detail) }
	w := NewWorld(s.History.Tag, s.Cfgs)
	collide := extraInts(s.Extra)
	override := func(w *World) {
		if len(collide) != 3 {
			return
		}
		w.LeafOverride = func(blockIdx, addIdx int, rec *BlockRec) (Hash, bool) {
			if blockIdx != collide[0] || addIdx != collide[1] {
				return Hash{}, false
			}
			before := rec.Before
			f := before.Forest()
			var internal []uint64
			for pos := uint64(0); pos < uint64(2)<<f.H; pos++ {
				if nd := f.Nodes[pos]; nd != nil && nd.Leaf < 0 {
					internal = append(internal, pos)
				}
			}
			if len(internal) == 0 {
				return Hash{}, false
			}
			h := f.Nodes[internal[collide[2]%len(internal)]].Hash
			for _, l := range before.Leaves {
				if l == h {
					return Hash{}, false // already used as a leaf once
				}
			}
			c.Count("leaves_equal_to_an_internal_node_hash", 1)
			return h, true
		}
	}
	override(w)
	if len(collide) != 3 && s.LeafMode != "" {
		w.SetLeafMode(s.LeafMode)
		c.Count("histories_with_leaf_mode_"+s.LeafMode, 1)
	}
	nontrivial := false
	for bi, b := range s.History.Blocks {
		rec, ok := w.ApplyBlock(b, fail)
		if len(b.Dels) > 0 {
			nontrivial = true
		}
		countTraits(c, traits(rec))
		if !ok {
			return
		}
		checkRoots(c, w, w.M.Forest(), fmt.Sprintf("after block %d", bi), fail)
		if c.CaseViolations() > 0 {
			return
		}
	}
	c.Max("max_leaves", len(w.M.Leaves))
	final := w.M.Forest()

	// Batching independence: (a) every deletion and every addition as its own
	// block; (b) additions before deletions, as two blocks.
	for variant := 0; variant < 2; variant++ {
		if c.Suite == "tall" && variant == 0 {
			continue // one-leaf blocks on tall forests cost too much for no new shape
		}
		if len(collide) == 3 || s.LeafMode != "" {
			break // rebatching changes block indexes, which the adversarial leaf hashes are derived from
		}
		w2 := NewWorld(s.History.Tag, []InstCfg{{Kind: "pollard"}, {"mapfull", s.Cfgs[len(s.Cfgs)-1].Rows}})
		fail2 := func(site, clause, trigger, detail string) {
			c.Violate(site, clause, "rebatched", fmt.Sprintf("batching variant %d: %s", variant, detail))
		}
		ok := true
		for _, b := range s.History.Blocks {
			var subs []gen.Block
			if variant == 0 {
				for _, d := range b.Dels {
					subs = append(subs, gen.Block{Dels: []int{d}})
				}
				for i := 0; i < b.Adds; i++ {
					subs = append(subs, gen.Block{Adds: 1})
				}
			} else {
				subs = append(subs, gen.Block{Adds: b.Adds}, gen.Block{Dels: b.Dels})
			}
			for _, sb := range subs {
				if len(sb.Dels) == 0 && sb.Adds == 0 {
					continue
				}
				if _, o := w2.ApplyBlock(sb, fail2); !o {
					ok = false
					break
				}
			}
			if !ok {
				break
			}
		}
		if !ok {
			continue
		}
		// The leaves get the same hashes in the same slots only in variant 0/1
		// if the counter advanced identically, which it does (one hash per add,
		// in slot order).
		f2 := w2.M.Forest()
		c.Eval(1)
		if !eqHashes(f2.Roots, final.Roots) || f2.N != final.N {
			c.Inconclusive("harness: rebatched model differs from original model")
			continue
		}
		checkRoots(c, w2, f2, fmt.Sprintf("after rebatched history (variant %d)", variant), fail2)
		c.Count("rebatched_histories", 1)
	}
	if nontrivial {
		for _, cfg := range s.Cfgs {
			c.Distinct(core.FP(histShape(s.History), cfg.String()))
		}
	}
	if c.WantSample(c.Suite) {
		c.Sample(c.Suite, map[string]any{"history": s.History, "cfgs": cfgNames(s.Cfgs), "final_leaves": final.N, "final_roots": hashesStr(final.Roots)})
	}
	_ = u.Proof{}
}

// extraInts decodes a scenario's Extra field when it is a list of integers.
func extraInts(x any) []int {
	switch v := x.(type) {
	case []int:
		return v
	case []any:
		var out []int
		for _, e := range v {
			if f, ok := e.(float64); ok {
				out = append(out, int(f))
			}
		}
		return out
	}
	return nil
}

func cfgNames(cfgs []InstCfg) []string {
	var out []string
	for _, c := range cfgs {
		out = append(out, c.String())
	}
	return out
}
