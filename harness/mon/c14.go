package mon

import (
	"encoding/json"
	"fmt"
	"math/rand"
	"sort"

	u "github.com/utreexo/utreexo"

	"verifharness/core"
	"verifharness/gen"
	rm "verifharness/refmodel"
)

// C14 — proof combination, restriction and completion are exact.

func c14Plan(tier string) histPlan {
	if tier == "thorough" {
		return histPlan{Enum: gen.EnumParams{MaxAdds: []int{5, 3, 2}}, Rand: 100000, Tall: 60}
	}
	return histPlan{Enum: gen.EnumParams{MaxAdds: []int{4, 2, 2}}, Rand: 5000, Tall: 4}
}

func init() {
	core.Register(&core.Monitor{
		ID:    "C14",
		Level: "exploration",
		Rule: "cases = block histories (enumerated small scope + seeded random + tall); at the states of each history pairs of target sets are drawn as overlapping / disjoint / nested under a common parent / in different trees, given in prover (shuffled) order and in sorted order. " +
			"Checked per pair: AddProof = canonical proof of the union; GetProofSubset for every subset (<=8 targets, one permutation each) or sampled sub-permutations = canonical proof of the subset in request order, error iff a wanted target is not covered; " +
			"GetMissingPositions(function) = canonical(held U extra) minus canonical(held), and completing the held proof with the true hashes at exactly those positions verifies; " +
			"MapPollard.GetMissingPositions = canonical proof positions not stored, VerifyPartialProof with the true hashes at those positions succeeds and fails with one of them corrupted. " +
			"An evaluation = one call judged. Non-trivial = forest with deleted leaves or target sets of size >=2; distinct = distinct (alive pattern, A slots, B slots, order mode).",
		Assumptions: []string{"SHA-512/256 collision freedom", "reference model correct", "the stand-alone GetMissingPositions sorts its desiredTargets argument: it is given a copy"},
		MinDistinct: 100,
		Plan: func(tier string) []core.Suite {
			n := 6
			if tier == "thorough" {
				n = 120
			}
			return append(c14Plan(tier).suites(), core.Suite{Name: "big", N: n, CaseTimeout: 600})
		},
		Run: func(c *core.Ctx) {
			if c.Suite == "big" {
				c14Big(c)
				return
			}
			h := c14Plan(c.Tier).history(c)
			cfgs := []InstCfg{{"mapfull", []uint8{0, 63, 3}[c.Index%3]}, {"mappartial", []uint8{0, 3, 63}[c.Index%3]}, {"mappartial", uint8(c.Rng.Intn(64))}}
			c14Check(c, histScenario{History: h, Cfgs: cfgs})
		},
		Replay: func(c *core.Ctx, raw json.RawMessage) {
			s, err := parseHistScenario(raw)
			if err != nil {
				c.Inconclusive("bad scenario")
				return
			}
			if len(s.Cfgs) == 0 {
				s.Cfgs = []InstCfg{{"mapfull", 0}, {"mappartial", 0}, {"mappartial", 63}}
			}
			c14Check(c, s)
		},
	})
}

// c14Big: one request for hundreds of targets against forests started from bare roots, so that a
// single VerifyPartialProof call has to take several hundred hashes from the caller (added after
// seeded change C14i, an 8-bit cursor into the supplied hashes).  The case is regenerated from
// (seed, index); the recorded scenario is the history plus the target slots.
func c14Big(c *core.Ctx) {
	tag := uint64(c.Seed)<<32 | uint64(c.Index) | 1<<48
	n0 := 600 + c.Rng.Intn(1500)
	h := gen.History{Tag: tag, Blocks: []gen.Block{{Adds: n0}}}
	var dels []int
	for sl := 0; sl < n0; sl++ {
		if c.Rng.Intn(20) == 0 {
			dels = append(dels, sl)
		}
	}
	h.Blocks = append(h.Blocks, gen.Block{Dels: dels, Adds: c.Rng.Intn(5)})
	m := &rm.Model{}
	var ctr uint64
	for _, b := range h.Blocks {
		gen.ApplyToModel(m, b, tag, &ctr)
	}
	f := m.Forest()
	live := m.Live()
	c.Rng.Shuffle(len(live), func(i, j int) { live[i], live[j] = live[j], live[i] })
	slots := live[:len(live)/3+c.Rng.Intn(len(live)/3)]
	c.SetScenario(map[string]any{"history": h, "target_slots": slots})
	var ha []Hash
	for _, sl := range slots {
		ha = append(ha, m.Leaves[sl])
	}
	pa, _ := f.ProofForHashes(ha)
	desc := fmt.Sprintf("forest of %d leaves (%d deleted), %d targets", f.N, len(dels), len(slots))
	for _, full := range []bool{false, true} {
		for _, remember := range []bool{false, true} {
			mp := u.NewMapPollardFromRoots(cloneHashes(f.Roots), f.N, full)
			kind := "mappartial"
			if full {
				kind = "mapfull"
			}
			c.Eval(1)
			got := mp.GetMissingPositions(cloneU64(pa.Targets))
			canon, _ := f.CanonProofPos(pa.Targets)
			var exp []uint64
			for _, p := range canon {
				if _, ok := mp.Nodes.Get(rm.Translate(p, f.H, mp.TotalRows)); !ok {
					exp = append(exp, p)
				}
			}
			if !eqU64(got, exp) {
				c.Violate(kind+".GetMissingPositions", "missing-positions", "big", fmt.Sprintf("%s: got %d positions, want %d", desc, len(got), len(exp)))
				return
			}
			c.Max("max_missing_positions_in_one_request", len(got))
			var ph []Hash
			for _, p := range got {
				ph = append(ph, f.Nodes[p].Hash)
			}
			c.Eval(1)
			if err := mp.VerifyPartialProof(cloneU64(pa.Targets), cloneHashes(ha), cloneHashes(ph), remember); err != nil {
				c.Violate(kind+".VerifyPartialProof", "true-completion-rejected", "big", fmt.Sprintf("%s, %d hashes supplied, remember=%v: %v", desc, len(ph), remember, err))
				return
			}
			if remember && !full {
				c.Eval(1)
				pr, err := mp.Prove(cloneHashes(ha))
				if err != nil || !eqProof(pr, pa) {
					c.Violate(kind+".Prove", "remembered-set-not-provable-canonically", "big", fmt.Sprintf("%s: %v", desc, err))
					return
				}
			}
			if len(ph) > 0 && !remember {
				bad := cloneHashes(ph)
				k := c.Rng.Intn(len(bad))
				bad[k][5] ^= 0x40
				mp2 := u.NewMapPollardFromRoots(cloneHashes(f.Roots), f.N, full)
				c.Eval(1)
				if err := mp2.VerifyPartialProof(cloneU64(pa.Targets), cloneHashes(ha), bad, false); err == nil {
					c.Violate(kind+".VerifyPartialProof", "corrupted-completion-accepted", "big", fmt.Sprintf("%s: supplied hash %d of %d corrupted", desc, k, len(bad)))
					return
				}
			}
			c.Distinct(core.FP(f.N, len(slots), full, remember))
		}
	}
	c.Count("big_partial_proof_requests", 1)
}

func leavesUnder(n *rm.Node, out *[]int) {
	if n == nil {
		return
	}
	if n.Leaf >= 0 {
		*out = append(*out, n.Leaf)
		return
	}
	leavesUnder(n.L, out)
	leavesUnder(n.R, out)
}

func pickSome(rng *rand.Rand, xs []int, min int) []int {
	if len(xs) == 0 {
		return nil
	}
	ys := append([]int(nil), xs...)
	rng.Shuffle(len(ys), func(i, j int) { ys[i], ys[j] = ys[j], ys[i] })
	n := min + rng.Intn(len(ys)-min+1)
	if n > 8 && rng.Intn(3) > 0 {
		n = 1 + rng.Intn(8)
	}
	if n < 1 {
		n = 1
	}
	return ys[:n]
}

// drawPair draws two slot sets under a mode; ok=false if the mode is not possible.
func drawPair(rng *rand.Rand, m *rm.Model, f *rm.Forest, mode int) (a, b []int, ok bool) {
	live := m.Live()
	if len(live) < 2 {
		return nil, nil, false
	}
	switch mode {
	case 0: // overlapping
		a = pickSome(rng, live, 1)
		b = pickSome(rng, live, 1)
		b = append(b, a[rng.Intn(len(a))])
		b = dedupInts(b)
	case 1: // disjoint
		p := append([]int(nil), live...)
		rng.Shuffle(len(p), func(i, j int) { p[i], p[j] = p[j], p[i] })
		k := 1 + rng.Intn(len(p)-1)
		a = pickSome(rng, p[:k], 1)
		b = pickSome(rng, p[k:], 1)
	case 2: // nested under a common parent
		var inner []*rm.Node
		for _, nd := range f.Nodes {
			if nd.L != nil {
				inner = append(inner, nd)
			}
		}
		if len(inner) == 0 {
			return nil, nil, false
		}
		sort.Slice(inner, func(i, j int) bool { return inner[i].Pos < inner[j].Pos })
		nd := inner[rng.Intn(len(inner))]
		var l, r []int
		leavesUnder(nd.L, &l)
		leavesUnder(nd.R, &r)
		a = pickSome(rng, l, 1)
		b = pickSome(rng, r, 1)
	case 3: // different trees
		var trees [][]int
		for _, t := range f.Trees {
			var l []int
			leavesUnder(t.Root, &l)
			if len(l) > 0 {
				trees = append(trees, l)
			}
		}
		if len(trees) < 2 {
			return nil, nil, false
		}
		i := rng.Intn(len(trees))
		j := rng.Intn(len(trees) - 1)
		if j >= i {
			j++
		}
		a = pickSome(rng, trees[i], 1)
		b = pickSome(rng, trees[j], 1)
	}
	return a, b, len(a) > 0 && len(b) > 0
}

func dedupInts(x []int) []int {
	seen := map[int]bool{}
	var out []int
	for _, v := range x {
		if !seen[v] {
			seen[v] = true
			out = append(out, v)
		}
	}
	return out
}

// orderSlots returns the slots in prover (shuffled) or sorted-by-position order.
func orderSlots(rng *rand.Rand, f *rm.Forest, slots []int, sorted bool) []int {
	out := append([]int(nil), slots...)
	if sorted {
		sort.Slice(out, func(i, j int) bool { return f.SlotPos[out[i]] < f.SlotPos[out[j]] })
	} else {
		rng.Shuffle(len(out), func(i, j int) { out[i], out[j] = out[j], out[i] })
	}
	return out
}

func slotsToProof(m *rm.Model, f *rm.Forest, slots []int) ([]Hash, u.Proof) {
	hashes := make([]Hash, len(slots))
	for i, s := range slots {
		hashes[i] = m.Leaves[s]
	}
	pr, _ := f.ProofForHashes(hashes)
	return hashes, pr
}

func c14Check(c *core.Ctx, s histScenario) {
	c.SetScenario(s)
	fail := func(site, clause, trigger, detail string) { c.Violate(site, "setup:"+clause, trigger, detail) }
	w := NewWorld(s.History.Tag, s.Cfgs)
	for bi, b := range s.History.Blocks {
		_, ok := w.ApplyBlock(b, fail)
		if !ok {
			return
		}
		if c.Suite == "tall" && bi%5 != 4 {
			continue
		}
		c14State(c, w, fmt.Sprintf("after block %d", bi))
		if c.CaseViolations() > 0 {
			return
		}
	}
}

func c14State(c *core.Ctx, w *World, when string) {
	m := w.M
	f := m.Forest()
	dirty := m.NumLive() != len(m.Leaves)
	for mode := 0; mode < 4; mode++ {
		for _, sorted := range []bool{false, true} {
			as, bs, ok := drawPair(c.Rng, m, f, mode)
			if !ok {
				continue
			}
			as = orderSlots(c.Rng, f, as, sorted)
			bs = orderSlots(c.Rng, f, bs, sorted)
			ha, pa := slotsToProof(m, f, as)
			hb, pb := slotsToProof(m, f, bs)
			modeName := []string{"overlapping", "disjoint", "nested", "different-trees"}[mode]
			ord := "prover-order"
			if sorted {
				ord = "sorted"
			}
			desc := fmt.Sprintf("%s (N=%d): A=slots %v targets %v, B=slots %v targets %v (%s, %s)", when, f.N, as, pa.Targets, bs, pb.Targets, modeName, ord)
			c.Count("pairs_"+modeName, 1)

			// AddProof
			c.Eval(1)
			uh, up := u.AddProof(cloneProof(pa), cloneProof(pb), cloneHashes(ha), cloneHashes(hb), f.N)
			union := map[Hash]bool{}
			for _, h := range ha {
				union[h] = true
			}
			for _, h := range hb {
				union[h] = true
			}
			if cl, detail := checkCached(f, uh, up, union); cl != "" {
				c.Violate("AddProof", cl, ord, fmt.Sprintf("%s: %s", desc, detail))
				return
			}
			if len(uh) > 0 {
				if _, err := u.Verify(w.Stump, uh, up); err != nil {
					c.Violate("AddProof", "verify-rejects", ord, fmt.Sprintf("%s: %v", desc, err))
					return
				}
			}

			// The same proof object combined twice, as a client does that keeps one cached
			// proof and merges block proofs into it: A lives in slices with spare capacity
			// (as proofs grown by append or by Proof.Update do); after AddProof(A, B) the
			// object A must still be the valid proof it was, and AddProof(A, B) must give the
			// canonical union again.
			{
				spare := func(hs_ []Hash) []Hash {
					out := make([]Hash, len(hs_), len(hs_)+len(pb.Proof)+len(hb)+5)
					copy(out, hs_)
					return out
				}
				tspare := make([]uint64, len(pa.Targets), len(pa.Targets)+len(pb.Targets)+5)
				copy(tspare, pa.Targets)
				objA := u.Proof{Targets: tspare, Proof: spare(pa.Proof)}
				objHA := spare(ha)
				c.Eval(1)
				u.AddProof(objA, cloneProof(pb), objHA, cloneHashes(hb), f.N)
				if !eqProof(objA, pa) || !eqHashes(objHA, ha) {
					c.Violate("AddProof", "first-proof-no-longer-valid-after-the-call", ord, fmt.Sprintf("%s: proof A (slices with spare capacity) was %s, is %s after AddProof(A, B)", desc, proofStr(pa), proofStr(objA)))
					return
				}
				uh2, up2 := u.AddProof(objA, cloneProof(pb), objHA, cloneHashes(hb), f.N)
				if cl, detail := checkCached(f, uh2, up2, union); cl != "" {
					c.Violate("AddProof", cl, joinTrig(ord, "second-use-of-the-same-proof"), fmt.Sprintf("%s: %s", desc, detail))
					return
				}
			}

			// GetProofSubset on proof A
			var subs [][]int // index lists into as
			idx := make([]int, len(as))
			for i := range idx {
				idx[i] = i
			}
			if len(as) <= 8 {
				for _, sub := range gen.Subsets(idx) {
					if len(sub) == 0 {
						continue
					}
					sub = append([]int(nil), sub...)
					c.Rng.Shuffle(len(sub), func(i, j int) { sub[i], sub[j] = sub[j], sub[i] })
					subs = append(subs, sub)
				}
			} else {
				for k := 0; k < 6; k++ {
					p := c.Rng.Perm(len(as))
					subs = append(subs, p[:1+c.Rng.Intn(len(p))])
				}
			}
			for _, sub := range subs {
				var wants []uint64
				var wantH []Hash
				for _, i := range sub {
					wants = append(wants, pa.Targets[i])
					wantH = append(wantH, ha[i])
				}
				c.Eval(1)
				sh, sp, err := u.GetProofSubset(cloneProof(pa), cloneHashes(ha), cloneU64(wants), f.N)
				if err != nil {
					c.Violate("GetProofSubset", "error-for-covered-targets", ord, fmt.Sprintf("%s: wants %v: %v", desc, wants, err))
					return
				}
				exp, _ := f.CanonProof(wants)
				if !eqHashes(sh, wantH) {
					c.Violate("GetProofSubset", "hashes-not-in-request-order", ord, fmt.Sprintf("%s: wants %v: hashes %s, expected %s", desc, wants, hashesStr(sh), hashesStr(wantH)))
					return
				}
				if !eqProof(sp, exp) {
					c.Violate("GetProofSubset", "proof-not-canonical", ord, fmt.Sprintf("%s: wants %v: got %s, canonical %s", desc, wants, proofStr(sp), proofStr(exp)))
					return
				}
			}
			// uncovered wants must error
			inA := map[uint64]bool{}
			for _, t := range pa.Targets {
				inA[t] = true
			}
			var uncovered []uint64
			for _, sl := range m.Live() {
				if p := f.SlotPos[sl]; !inA[p] {
					uncovered = append(uncovered, p)
					break
				}
			}
			uncovered = append(uncovered, (uint64(2)<<f.H)+1)
			// positions the proof is about without their being targets: the ancestors it lets one
			// compute and the siblings it carries as proof hashes (added after seeded change C14h,
			// which answers for a wanted ancestor instead of refusing)
			if len(pa.Targets) > 0 {
				st := cloneU64(pa.Targets)
				sort.Slice(st, func(i, j int) bool { return st[i] < st[j] })
				pp, comp := u.ProofPositions(st, f.N, f.H)
				n := 0
				for _, q := range append(append([]uint64(nil), comp...), pp...) {
					if !inA[q] && n < 6 {
						uncovered = append(uncovered, q)
						n++
					}
				}
			}
			for _, uc := range uncovered {
				wants := []uint64{uc}
				if len(pa.Targets) > 0 && c.Rng.Intn(2) == 0 {
					wants = append([]uint64{pa.Targets[0]}, uc)
				}
				c.Eval(1)
				_, _, err := u.GetProofSubset(cloneProof(pa), cloneHashes(ha), wants, f.N)
				if err == nil {
					c.Violate("GetProofSubset", "no-error-for-uncovered-target", ord, fmt.Sprintf("%s: wants %v", desc, wants))
					return
				}
			}

			// GetMissingPositions (function): held = A, desired = B
			c.Eval(1)
			miss := u.GetMissingPositions(f.N, cloneU64(pa.Targets), cloneU64(pb.Targets))
			unionT := append(cloneU64(pa.Targets), pb.Targets...)
			canonU, _ := f.CanonProofPos(unionT)
			canonA, _ := f.CanonProofPos(pa.Targets)
			expMiss := diffU64(canonU, canonA)
			if !eqU64(miss, expMiss) {
				c.Violate("GetMissingPositions", "missing-positions", ord, fmt.Sprintf("%s: got %v want %v", desc, miss, expMiss))
				return
			}
			// completing the held proof with true hashes at those positions verifies
			{
				have := map[uint64]Hash{}
				for i, p := range canonA {
					have[p] = pa.Proof[i]
				}
				for _, p := range miss {
					have[p] = f.Nodes[p].Hash
				}
				var full u.Proof
				var fh []Hash
				seen := map[uint64]bool{}
				for i, t := range pa.Targets {
					if !seen[t] {
						seen[t] = true
						full.Targets = append(full.Targets, t)
						fh = append(fh, ha[i])
					}
				}
				for i, t := range pb.Targets {
					if !seen[t] {
						seen[t] = true
						full.Targets = append(full.Targets, t)
						fh = append(fh, hb[i])
					}
				}
				okc := true
				for _, p := range canonU {
					h, ok := have[p]
					if !ok {
						okc = false
						c.Violate("GetMissingPositions", "completion-insufficient", ord, fmt.Sprintf("%s: position %d is needed for the union but neither held nor reported missing (%v)", desc, p, miss))
						return
					}
					full.Proof = append(full.Proof, h)
				}
				if okc {
					c.Eval(1)
					if _, err := u.Verify(w.Stump, fh, full); err != nil {
						c.Violate("GetMissingPositions", "completed-proof-rejected", ord, fmt.Sprintf("%s: %v", desc, err))
						return
					}
				}
			}

			// MapPollard.GetMissingPositions + VerifyPartialProof: the history's instances plus two
			// forests started from the bare roots of this state (Full and not), the second pair
			// after they were asked to remember A through a completed partial proof
			insts := append([]*Inst(nil), w.Insts...)
			for _, full := range []bool{true, false} {
				for _, primed := range []bool{false, true} {
					mp := u.NewMapPollardFromRoots(cloneHashes(f.Roots), f.N, full)
					name := "mappartial/fromroots"
					kind := "mappartial"
					if full {
						name, kind = "mapfull/fromroots", "mapfull"
					}
					if primed {
						name += "+rememberedA"
						missA := mp.GetMissingPositions(cloneU64(pa.Targets))
						var ph []Hash
						okA := true
						for _, p := range missA {
							if nd := f.Nodes[p]; nd != nil {
								ph = append(ph, nd.Hash)
							} else {
								okA = false
							}
						}
						if !okA || mp.VerifyPartialProof(cloneU64(pa.Targets), cloneHashes(ha), ph, true) != nil {
							continue // judged below on the unprimed instance
						}
					}
					insts = append(insts, &Inst{Cfg: InstCfg{Kind: kind, Rows: 63}, Name: name, MP: &mp, U: &mp, Rem: map[Hash]bool{}})
					c.Count("from_roots_instances", 1)
				}
			}
			for _, in := range insts {
				mp := in.MP
				if mp == nil {
					continue
				}
				for _, set := range []struct {
					h []Hash
					p u.Proof
				}{{ha, pa}, {hb, pb}} {
					c.Eval(1)
					got := mp.GetMissingPositions(cloneU64(set.p.Targets))
					canon, _ := f.CanonProofPos(set.p.Targets)
					var exp []uint64
					for _, p := range canon {
						if _, ok := mp.Nodes.Get(rm.Translate(p, f.H, mp.TotalRows)); !ok {
							exp = append(exp, p)
						}
					}
					site := in.Cfg.Kind + ".GetMissingPositions"
					if !eqU64(got, exp) {
						c.Violate(site, "missing-positions", "", fmt.Sprintf("%s: %s targets %v: got %v want %v", desc, in.Name, set.p.Targets, got, exp))
						return
					}
					var ph []Hash
					for _, p := range got {
						ph = append(ph, f.Nodes[p].Hash)
					}
					c.Eval(1)
					site = in.Cfg.Kind + ".VerifyPartialProof"
					if err := mp.VerifyPartialProof(cloneU64(set.p.Targets), cloneHashes(set.h), cloneHashes(ph), false); err != nil {
						c.Violate(site, "true-completion-rejected", "", fmt.Sprintf("%s: %s targets %v missing %v: %v", desc, in.Name, set.p.Targets, got, err))
						return
					}
					if len(ph) > 0 {
						badh := cloneHashes(ph)
						badh[c.Rng.Intn(len(badh))] = rm.FreshHash(w.Tag, uint64(c.Rng.Int63()))
						c.Eval(1)
						if err := mp.VerifyPartialProof(cloneU64(set.p.Targets), cloneHashes(set.h), badh, false); err == nil {
							c.Violate(site, "corrupted-completion-accepted", "", fmt.Sprintf("%s: %s targets %v", desc, in.Name, set.p.Targets))
							return
						}
						c.Count("partial_completions_with_missing_hashes", 1)
					}
				}
			}
			if dirty || len(as) >= 2 || len(bs) >= 2 {
				c.Distinct(core.FP(m.Alive, as, bs, sorted))
			}
			if c.WantSample(modeName) {
				c.Sample(modeName, map[string]any{"alive": aliveStr(m.Alive), "A_slots": as, "B_slots": bs, "order": ord, "A_targets": pa.Targets, "B_targets": pb.Targets, "missing_for_B_given_A": miss})
			}
		}
	}
}
