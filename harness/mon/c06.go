package mon

import (
	"encoding/json"
	"fmt"

	u "github.com/utreexo/utreexo"

	"verifharness/core"
	"verifharness/gen"
	rm "verifharness/refmodel"
)

// C06 — undo is the exact inverse of a block, to any reorganisation depth.

var c06EnumCache = map[string][]fScenario{}

func c06Enum(tier string) []fScenario {
	if l, ok := c06EnumCache[tier]; ok {
		return l
	}
	p := gen.EnumParams{MaxAdds: []int{4, 3}}
	if tier == "thorough" {
		p = gen.EnumParams{MaxAdds: []int{5, 4, 2}}
	}
	var out []fScenario
	for i, h := range enumList(p) {
		for k := 1; k <= len(h.Blocks); k++ {
			s := fScenario{Tag: h.Tag, FromRootsAt: -1,
				Cfgs: []InstCfg{{Kind: "pollard"}, {"mapfull", 0}, {"mapfull", []uint8{63, 1, 2, 3, 5}[i%5]}, {"mappartial", []uint8{0, 63}[i%2]}}}
			for _, b := range h.Blocks {
				bb := b
				s.Ops = append(s.Ops, fOp{Kind: "block", Block: &bb})
			}
			s.Ops = append(s.Ops, fOp{Kind: "undo", K: k})
			// redo with a different block: delete the first live leaf (if any), add 2
			m := &rm.Model{}
			var ctr uint64
			for _, b := range h.Blocks[:len(h.Blocks)-k] {
				gen.ApplyToModel(m, b, 0, &ctr)
			}
			nb := gen.Block{Adds: 2}
			if live := m.Live(); len(live) > 0 {
				nb.Dels = []int{live[0]}
			}
			s.Ops = append(s.Ops, fOp{Kind: "block", Block: &nb})
			out = append(out, s)
		}
	}
	c06EnumCache[tier] = out
	return out
}

func init() {
	core.Register(&core.Monitor{
		ID:    "C06",
		Level: "exploration",
		Rule: "cases = forest scenarios in rounds: apply 1-6 blocks, undo k of them newest-first (k uniform, full unwinds to the empty accumulator included), apply different blocks, repeat 2-4 rounds; blocks that empty whole trees and additions that overwrite empty roots are forced in a quarter of the cases; " +
			"'enum' = every history of a small scope x every undo depth x a redo block. Instances: Pollard, full MapPollard (TotalRows rotated over 0..63), partial MapPollard (deletions first verified with remember). " +
			"After every undo and every later block each instance is compared with the reference model of that earlier state: roots, leaf count, GetLeafPosition of every tracked leaf, GetHash of every node, provable set and byte-identical proofs; " +
			"at the end a twin instance that only ever saw the surviving blocks must answer identically. An evaluation = one such comparison. Non-trivial = an undo was performed on a forest with deletions; distinct = distinct (ops shape, configuration).",
		Assumptions: []string{"SHA-512/256 collision freedom", "reference model correct",
			"MapPollard.TotalRows may stay at its grown value after Undo (hidden from every observation in the statement)",
			"for partial instances leaves remembered between a block and its undo stay remembered"},
		MinDistinct: 100,
		Plan: func(tier string) []core.Suite {
			if tier == "thorough" {
				return []core.Suite{{Name: "enum", N: len(c06Enum(tier)), Exhaustive: true}, {Name: "rand", N: 400000}, {Name: "tall", N: 120, CaseTimeout: 900}, {Name: "bigundo", N: 60, CaseTimeout: 900}}
			}
			return []core.Suite{{Name: "enum", N: len(c06Enum(tier)), Exhaustive: true}, {Name: "rand", N: 10000}, {Name: "tall", N: 4, CaseTimeout: 900}, {Name: "bigundo", N: 6, CaseTimeout: 900}}
		},
		Run: func(c *core.Ctx) {
			var s fScenario
			tag := uint64(c.Seed)<<32 | uint64(c.Index)
			switch c.Suite {
			case "enum":
				s = c06Enum(c.Tier)[c.Index]
			case "bigundo":
				// undo of a block that deleted a whole aligned sub-tree of 256 or 512 leaves from a
				// forest of 512 to ~1500 leaves, so that Undo has to move a sub-tree 8 or 9 rows tall
				// back down (added after seeded change C06i, an 8-bit level counter)
				n0 := []int{512, 1024, 768, 1100, 1536, 600}[c.Index%6]
				width := 256
				if n0 >= 1024 && c.Index%2 == 1 {
					width = 512
				}
				first := width * c.Rng.Intn(n0/width)
				b0 := gen.Block{Adds: n0, Remember: make([]bool, n0)}
				for i := range b0.Remember {
					b0.Remember[i] = true
				}
				var dels []int
				for sl := first; sl < first+width; sl++ {
					dels = append(dels, sl)
				}
				c.Rng.Shuffle(len(dels), func(i, j int) { dels[i], dels[j] = dels[j], dels[i] })
				b1 := gen.Block{Dels: dels, Adds: c.Rng.Intn(3)}
				b2 := gen.Block{Adds: 1 + c.Rng.Intn(4)}
				s = fScenario{Tag: tag | 1<<61, Cfgs: []InstCfg{{Kind: "pollard"}, {"mapfull", 0}, {"mapfull", 63}, {"mappartial", 63}}, FromRootsAt: -1,
					Ops: []fOp{{Kind: "block", Block: &b0}, {Kind: "block", Block: &b1}, {Kind: "undo", K: 1}, {Kind: "block", Block: &b2}, {Kind: "undo", K: 1}}}
			case "tall":
				p := gen.Tall
				p.MaxLeaves = 2000
				s = genForestScenario(c.Rng, tag|1<<62, []InstCfg{{Kind: "pollard"}, {"mapfull", 0}, {"mapfull", 63}, {"mappartial", 63}},
					fGenOpts{Profile: p, Rounds: 3, Undo: true})
			default:
				cfgs := []InstCfg{{Kind: "pollard"}, {"mapfull", 0}, {"mapfull", 63}, {"mapfull", uint8(c.Index % 64)}, {"mappartial", []uint8{0, 2, 63}[c.Index%3]}}
				p := gen.Small
				if c.Index%2 == 0 {
					p = gen.Tiny
				}
				p.RememberMode = 1
				// a third of the scenarios re-apply undone blocks from their own records ("re-applying the
				// same ... blocks"), and hand every call the one record per block without defensive
				// copies, the way a caller relying on C17 does (added after seeded change C06g)
				share := c.Index%3 == 1
				s = genForestScenario(c.Rng, tag, cfgs, fGenOpts{Profile: p, Rounds: 2 + c.Rng.Intn(3), Undo: true, ForceEmptyRootOverwrite: c.Index%4 == 0, Redo: share, Reload: c.Index%5 == 3, JunkProofs: c.Index%5 == 4})
				s.Share = share
				if c.Index%8 == 5 {
					s.LeafMode = "readd"
				}
			}
			c06Check(c, s)
		},
		Replay: func(c *core.Ctx, raw json.RawMessage) {
			var s fScenario
			if err := json.Unmarshal(raw, &s); err != nil {
				c.Inconclusive("bad scenario")
				return
			}
			c06Check(c, s)
		},
	})
}

type structChecker interface{ VerifCheckStructure() error }

// c06CompareInst compares one instance with the model state f.
func c06CompareInst(c *core.Ctx, w *World, in *Inst, f *rm.Forest, site, trig, desc string, nreq int, ever map[Hash]bool) bool {
	kind := in.Cfg.Kind
	// the provable set is the same as before the undone blocks: a leaf that is
	// not (or no longer) in the forest is neither found nor provable
	for h := range ever {
		if _, live := f.LeafPos[h]; live {
			continue
		}
		c.Eval(1)
		if pos, ok := in.U.GetLeafPosition(h); ok {
			c.Violate(site, "stale-leaf-found", trig, fmt.Sprintf("%s: GetLeafPosition(%s) = (%d, true) for a leaf that is not in the forest", desc, hs(h), pos))
			return false
		}
		if in.P != nil && f.N <= 1 {
			// Pollard.Prove answers without looking at the hashes when it holds 0 or 1
			// leaves (documented in its code); it does so before and after the undone
			// blocks alike, so nothing distinguishes the two states here.
			continue
		}
		if pr, err := in.U.Prove([]Hash{h}); err == nil {
			c.Violate(site, "stale-leaf-provable", trig, fmt.Sprintf("%s: Prove(%s) succeeded (%s) for a leaf that is not in the forest", desc, hs(h), proofStr(pr)))
			return false
		}
	}
	c.Eval(1)
	if n := in.U.GetNumLeaves(); n != f.N || !eqHashes(in.U.GetRoots(), f.Roots) {
		c.Violate(site, "roots", trig, fmt.Sprintf("%s: N=%d roots=%s; reference N=%d roots=%s", desc, n, hashesStr(in.U.GetRoots()), f.N, hashesStr(f.Roots)))
		return false
	}
	var cand []int
	for _, s := range w.M.Live() {
		h := w.M.Leaves[s]
		if in.Partial() && !in.Rem[h] {
			continue
		}
		cand = append(cand, s)
		c.Eval(1)
		got, ok := in.U.GetLeafPosition(h)
		if !ok || got != f.LeafPos[h] {
			c.Violate(site, "leaf-position", trig, fmt.Sprintf("%s: slot %d at (%d,%v), reference %d", desc, s, got, ok, f.LeafPos[h]))
			return false
		}
	}
	var zero Hash
	if f.N <= 300 {
		for p, nd := range f.Nodes {
			c.Eval(1)
			got := in.U.GetHash(p)
			if got == nd.Hash || (in.Partial() && got == zero) {
				continue
			}
			c.Violate(site, "node-hash", trig, fmt.Sprintf("%s: GetHash(%d)=%s, reference %s", desc, p, hs(got), hs(nd.Hash)))
			return false
		}
	}
	for _, req := range requestSets(c.Rng, cand, nreq, false) {
		hashes := make([]Hash, len(req))
		for i, s := range req {
			hashes[i] = w.M.Leaves[s]
		}
		want, _ := f.ProofForHashes(hashes)
		c.Eval(1)
		got, err := in.U.Prove(cloneHashes(hashes))
		if err != nil {
			c.Violate(site, "prove-error", trig, fmt.Sprintf("%s: slots %v: %v", desc, req, err))
			return false
		}
		if !eqProof(got, want) {
			c.Violate(site, "proof-differs", trig, fmt.Sprintf("%s: slots %v: got %s; reference %s", desc, req, proofStr(got), proofStr(want)))
			return false
		}
		c.Eval(1)
		if err := in.U.Verify(cloneHashes(hashes), cloneProof(got), false); err != nil {
			c.Violate(site, "own-proof-rejected", trig, fmt.Sprintf("%s: slots %v: the instance rejects the proof it just produced: %v", desc, req, err))
			return false
		}
	}
	if sc, ok := in.U.(structChecker); ok && in.P != nil {
		c.Eval(1)
		if err := sc.VerifCheckStructure(); err != nil {
			c.Violate(site, "pollard-structure", trig, fmt.Sprintf("%s: %v", desc, err))
			return false
		}
		c.Count("pollard_structure_walks", 1)
	}
	_ = kind
	return true
}

func c06Check(c *core.Ctx, s fScenario) {
	c.SetScenario(s)
	nreq := 3
	if c.Tier == "thorough" {
		nreq = 8
	}
	sawDel := false
	ever := map[Hash]bool{}
	w := runForest(c, s, func(site, clause, trigger, detail string) {
		cl := "setup:" + clause
		if len(site) > 5 && site[len(site)-5:] == ".Undo" {
			cl = clause
		}
		c.Violate(site, cl, trigger, detail)
	}, func(st *fState) {
		if st.Op.Kind == "block" && len(st.Op.Block.Dels) > 0 {
			sawDel = true
		}
		if (st.Op.Kind == "block" || st.Op.Kind == "redo") && st.LastRec != nil {
			for _, h := range st.LastRec.AddHashes {
				ever[h] = true
			}
		}
		if !st.AfterUndo || st.Quiet {
			return
		}
		trig := ""
		if st.Op.Kind == "undo" && st.LastRec != nil && len(st.LastRec.UD.ToDestroy) > 0 {
			trig = "undone-block-overwrote-empty-root"
		}
		for _, in := range st.W.Insts {
			site := in.Cfg.Kind + ".Undo"
			if st.Op.Kind != "undo" {
				site = in.Cfg.Kind + ".Modify-after-undo"
			}
			if !c06CompareInst(c, st.W, in, st.F, site, trig, fmt.Sprintf("%s: %s", st.When, in.Name), nreq, ever) {
				return
			}
		}
		if st.Op.Kind == "undo" {
			c.Count("undo_ops_checked", 1)
			if trig != "" {
				c.Count("undo_ops_restoring_empty_roots", 1)
			}
		}
	})
	if c.CaseViolations() > 0 {
		return
	}
	// twin: fresh instances that only ever see the surviving blocks
	if w != nil && len(w.Recs) > 0 && s.FromRootsAt < 0 {
		tw := NewWorld(s.Tag, s.Cfgs)
		ok := true
		for _, rec := range w.Recs {
			fail := func(site, clause, trigger, detail string) { ok = false }
			for _, in := range tw.Insts {
				// partial twins remember exactly what the original remembers at the end
				ApplyToInst(in, rec, fail)
			}
		}
		if ok {
			f := w.M.Forest()
			for i, in := range w.Insts {
				t := tw.Insts[i]
				c.Eval(1)
				desc := fmt.Sprintf("twin comparison at the end: %s", in.Name)
				if !eqHashes(in.U.GetRoots(), t.U.GetRoots()) || in.U.GetNumLeaves() != t.U.GetNumLeaves() {
					c.Violate(in.Cfg.Kind+".Undo", "twin-roots", "", desc)
					return
				}
				if in.Partial() {
					continue // remembered sets legitimately differ
				}
				for _, sl := range w.M.Live() {
					h := w.M.Leaves[sl]
					a, aok := in.U.GetLeafPosition(h)
					b, bok := t.U.GetLeafPosition(h)
					if a != b || aok != bok {
						c.Violate(in.Cfg.Kind+".Undo", "twin-leaf-position", "", fmt.Sprintf("%s: slot %d: (%d,%v) vs twin (%d,%v)", desc, sl, a, aok, b, bok))
						return
					}
				}
				top := uint64(2) << f.H
				if top <= 1024 {
					for p := uint64(0); p < top; p++ {
						if in.U.GetHash(p) != t.U.GetHash(p) {
							c.Violate(in.Cfg.Kind+".Undo", "twin-node-hash", "", fmt.Sprintf("%s: GetHash(%d) %s vs twin %s", desc, p, hs(in.U.GetHash(p)), hs(t.U.GetHash(p))))
							return
						}
					}
				}
				live := w.M.Live()
				if len(live) > 0 {
					hashes := make([]Hash, len(live))
					for j, sl := range live {
						hashes[j] = w.M.Leaves[sl]
					}
					pa, ea := in.U.Prove(cloneHashes(hashes))
					pb, eb := t.U.Prove(cloneHashes(hashes))
					if (ea == nil) != (eb == nil) || !eqProof(pa, pb) {
						c.Violate(in.Cfg.Kind+".Undo", "twin-proof", "", fmt.Sprintf("%s: full-set proof differs from twin (%v / %v)", desc, ea, eb))
						return
					}
				}
			}
			c.Count("twin_comparisons", 1)
		}
	}
	if sawDel {
		for _, cfg := range s.Cfgs {
			c.Distinct(core.FP(opsShape(s), cfg.String()))
		}
	}
	if c.WantSample(c.Suite) {
		c.Sample(c.Suite, s)
	}
	_ = u.Proof{}
}
