package mon

import (
	"encoding/json"
	"fmt"
	"math/rand"
	"sort"
	"strings"

	u "github.com/utreexo/utreexo"

	"verifharness/core"
	"verifharness/gen"
	rm "verifharness/refmodel"
)

// C07 — a cached proof updated from block data alone stays complete and canonical.
// C08 — undoing a cached proof yields a canonical proof for the previous state.

type lcOp struct {
	Block *gen.Block `json:"block,omitempty"`
	Rem   []uint32   `json:"rem,omitempty"`
	Undo  int        `json:"undo,omitempty"`
}

type lcScenario struct {
	Tag      uint64 `json:"tag"`
	Ops      []lcOp `json:"ops"`
	LeafMode string `json:"leaf_mode,omitempty"` // World.SetLeafMode
}

// genRem draws remember indexes for a block under a mode.
func genRem(rng *rand.Rand, m *rm.Model, b gen.Block, mode int) []uint32 {
	var rem []uint32
	switch mode {
	case 0: // none
	case 1: // all
		for i := 0; i < b.Adds; i++ {
			rem = append(rem, uint32(i))
		}
	case 2: // random
		for i := 0; i < b.Adds; i++ {
			if rng.Intn(2) == 0 {
				rem = append(rem, uint32(i))
			}
		}
	case 3: // only the last add
		if b.Adds > 0 {
			rem = append(rem, uint32(b.Adds-1))
		}
	case 4: // only adds that end the block as roots (lone or lifted)
		after := m.Clone()
		for _, s := range b.Dels {
			after.Alive[s] = false
		}
		base := len(after.Leaves)
		for i := 0; i < b.Adds; i++ {
			after.Add(rm.LeafHash(^uint64(1), uint64(i)))
		}
		f := after.Forest()
		for _, t := range f.Trees {
			if t.Root != nil && t.Root.Leaf >= base {
				rem = append(rem, uint32(t.Root.Leaf-base))
			}
		}
		sort.Slice(rem, func(a, b int) bool { return rem[a] < rem[b] })
	}
	return rem
}

// genLCScenario draws blocks with remember lists and (if undo) rounds of undo/redo.
func genLCScenario(rng *rand.Rand, tag uint64, undo bool, p gen.Profile) lcScenario {
	s := lcScenario{Tag: tag}
	var stack []*rm.Model // model before each applied block
	m := &rm.Model{}
	var ctr uint64
	rounds := 1
	if undo {
		rounds = 2 + rng.Intn(3)
	}
	for r := 0; r < rounds; r++ {
		nb := 1 + rng.Intn(6)
		if !undo {
			nb = p.MinBlocks + rng.Intn(p.MaxBlocks-p.MinBlocks+1)
		}
		for i := 0; i < nb; i++ {
			b := gen.NextBlock(rng, m, p, len(m.Leaves) == 0)
			rem := genRem(rng, m, b, rng.Intn(5))
			stack = append(stack, m.Clone())
			gen.ApplyToModel(m, b, tag, &ctr)
			bb := b
			s.Ops = append(s.Ops, lcOp{Block: &bb, Rem: rem})
		}
		if undo && len(stack) > 0 {
			k := 1 + rng.Intn(len(stack))
			if rng.Intn(4) == 0 {
				k = len(stack) // full unwind to the empty accumulator
			}
			s.Ops = append(s.Ops, lcOp{Undo: k})
			m = stack[len(stack)-k]
			stack = stack[:len(stack)-k]
		}
	}
	if undo {
		// a final stretch of updates after the last undo
		for i := 0; i < 1+rng.Intn(3); i++ {
			b := gen.NextBlock(rng, m, p, len(m.Leaves) == 0)
			rem := genRem(rng, m, b, rng.Intn(5))
			gen.ApplyToModel(m, b, tag, &ctr)
			bb := b
			s.Ops = append(s.Ops, lcOp{Block: &bb, Rem: rem})
		}
	}
	return s
}

// enumerated: every history of the small scope x every remember subset per block
type lcEnumItem struct {
	h    gen.History
	rems [][]uint32
}

var lcEnumCache = map[string][]lcScenario{}

func lcEnum(p gen.EnumParams, withUndo bool) []lcScenario {
	key := fmt.Sprint(p, withUndo)
	if l, ok := lcEnumCache[key]; ok {
		return l
	}
	var out []lcScenario
	for _, h := range enumList(p) {
		// all combinations of remember subsets
		var rec func(i int, ops []lcOp)
		rec = func(i int, ops []lcOp) {
			if i == len(h.Blocks) {
				sc := lcScenario{Tag: h.Tag, Ops: append([]lcOp(nil), ops...)}
				if withUndo {
					for k := 1; k <= len(h.Blocks); k++ {
						sk := lcScenario{Tag: sc.Tag, Ops: append(append([]lcOp(nil), sc.Ops...), lcOp{Undo: k})}
						out = append(out, sk)
					}
				} else {
					out = append(out, sc)
				}
				return
			}
			b := h.Blocks[i]
			for mask := 0; mask < 1<<uint(b.Adds); mask++ {
				var rem []uint32
				for j := 0; j < b.Adds; j++ {
					if mask>>uint(j)&1 == 1 {
						rem = append(rem, uint32(j))
					}
				}
				bb := b
				rec(i+1, append(ops, lcOp{Block: &bb, Rem: rem}))
			}
		}
		rec(0, nil)
	}
	lcEnumCache[key] = out
	return out
}

type lcPlan struct {
	Enum gen.EnumParams
	Rand int
}

func lcPlanFor(prop, tier string) lcPlan {
	switch {
	case prop == "C07" && tier == "thorough":
		return lcPlan{gen.EnumParams{MaxAdds: []int{4, 3, 2}}, 800000}
	case prop == "C07":
		return lcPlan{gen.EnumParams{MaxAdds: []int{3, 2, 2}}, 20000}
	case tier == "thorough":
		return lcPlan{gen.EnumParams{MaxAdds: []int{4, 3, 2}}, 300000}
	default:
		return lcPlan{gen.EnumParams{MaxAdds: []int{3, 2, 2}}, 5000}
	}
}

func init() {
	for _, prop := range []string{"C07", "C08"} {
		prop := prop
		undo := prop == "C08"
		rule := "cases = light-client runs (Stump + cached Proof + leaf hashes only, fed block targets, added hashes, remember indexes and the UpdateData of its own Stump.Update; block proofs come from the reference model): " +
			"'enum' = every history of the small scope x every subset of added-leaf indexes to remember per block; 'rand' = seeded histories with remember modes none/all/random/last-add-only/root-adds-only. "
		if undo {
			rule += "Each run is followed by Proof.Undo of the last k blocks newest-first (enum: every k; rand: rounds of undo incl. full unwinds, then updates on another branch). An evaluation = one check of the cached proof after an Undo (held set, positions, canonical proof hashes, Verify against the previous stump) or after a post-undo Update. " +
				"Non-trivial = an undo with a non-empty cached proof; distinct = distinct (alive pattern before/after, held slots, undone block shape)."
		} else {
			rule += "An evaluation = one check of the cached proof after a Proof.Update (held set = previous minus deleted plus remembered adds; true positions; canonical proof hashes; Verify accepts). " +
				"Non-trivial = update with a non-empty held set or remember list; distinct = distinct (alive pattern, held slots, block shape, remember list)."
		}
		core.Register(&core.Monitor{
			ID:          prop,
			Level:       "exploration",
			Rule:        rule,
			Assumptions: []string{"SHA-512/256 collision freedom", "reference model correct", "block proofs are the model's canonical proofs"},
			MinDistinct: 100,
			Plan: func(tier string) []core.Suite {
				p := lcPlanFor(prop, tier)
				huge := 3
				if tier == "thorough" {
					huge = 12
				}
				return []core.Suite{{Name: "enum", N: len(lcEnum(p.Enum, undo)), Exhaustive: true}, {Name: "rand", N: p.Rand}, {Name: "huge", N: huge, CaseTimeout: 900}}
			},
			Run: func(c *core.Ctx) {
				p := lcPlanFor(prop, c.Tier)
				var s lcScenario
				if c.Suite == "huge" {
					s = genHugeLC(c.Rng, uint64(c.Seed)<<32|uint64(c.Index)|1<<53, c.Index, undo)
				} else if c.Suite == "enum" {
					s = lcEnum(p.Enum, undo)[c.Index]
				} else {
					prof := gen.Small
					if c.Index%2 == 0 {
						prof = gen.Tiny
					}
					s = genLCScenario(c.Rng, uint64(c.Seed)<<32|uint64(c.Index), undo, prof)
					// ("collide" - a leaf equal to an internal node's hash - is not used here: the
					// cached-proof code identifies nodes by hash, the unchanged tree itself loses and
					// misplaces leaves under such inputs, and the property excludes hash collisions)
					s.LeafMode = map[int]string{4: "prefix", 5: "readd"}[c.Index%6]
				}
				lcCheck(c, s, undo)
			},
			Replay: func(c *core.Ctx, raw json.RawMessage) {
				var s lcScenario
				if err := json.Unmarshal(raw, &s); err != nil {
					c.Inconclusive("bad scenario")
					return
				}
				lcCheck(c, s, undo)
			},
		})
	}
}

// genHugeLC: a few small blocks, then one block whose addition count sits on an
// integer-width boundary (2^16 and around), then small blocks again (and undo).
func genHugeLC(rng *rand.Rand, tag uint64, idx int, undo bool) lcScenario {
	s := lcScenario{Tag: tag}
	m := &rm.Model{}
	var ctr uint64
	push := func(b gen.Block, rem []uint32) {
		gen.ApplyToModel(m, b, tag, &ctr)
		bb := b
		s.Ops = append(s.Ops, lcOp{Block: &bb, Rem: rem})
	}
	first := 3 + rng.Intn(10)
	var rem []uint32
	for i := 0; i < first; i++ {
		if rng.Intn(2) == 0 {
			rem = append(rem, uint32(i))
		}
	}
	if len(rem) == 0 {
		rem = []uint32{0}
	}
	push(gen.Block{Adds: first}, rem)
	if rng.Intn(2) == 0 {
		push(gen.Block{Dels: gen.PickDels(rng, m, 3), Adds: rng.Intn(3)}, nil)
	}
	big := []int{65536, 65535, 65537, 70000, 131072, 65536 + rng.Intn(3000)}[idx%6]
	push(gen.Block{Adds: big}, []uint32{0, uint32(1 + rng.Intn(big-2)), uint32(big - 1)})
	push(gen.Block{Dels: gen.PickDels(rng, m, 8), Adds: 1 + rng.Intn(4)}, []uint32{0})
	if undo {
		s.Ops = append(s.Ops, lcOp{Undo: 2})
		push(gen.Block{Adds: 2}, []uint32{1})
	}
	return s
}

// checkCached compares (hashes, proof) with the canonical proof of `want` in f.
// Returns clause, detail ("" if fine).
func checkCached(f *rm.Forest, hashes []Hash, proof u.Proof, want map[Hash]bool) (string, string) {
	if len(hashes) != len(proof.Targets) {
		return "length-mismatch", fmt.Sprintf("%d hashes, %d targets", len(hashes), len(proof.Targets))
	}
	got := map[Hash]bool{}
	for i, h := range hashes {
		if got[h] {
			return "duplicate-leaf", fmt.Sprintf("hash %s held twice", hs(h))
		}
		got[h] = true
		if !want[h] {
			if _, live := f.LeafPos[h]; !live {
				return "holds-non-live-leaf", fmt.Sprintf("hash %s at target %d is not a live leaf", hs(h), proof.Targets[i])
			}
			return "holds-unexpected-leaf", fmt.Sprintf("hash %s at target %d was never asked for", hs(h), proof.Targets[i])
		}
		if f.LeafPos[h] != proof.Targets[i] {
			return "wrong-position", fmt.Sprintf("hash %s paired with target %d, true position %d", hs(h), proof.Targets[i], f.LeafPos[h])
		}
	}
	for h := range want {
		if !got[h] {
			n := f.Nodes[f.LeafPos[h]]
			if n != nil && n.IsRoot {
				return "lost-leaf", fmt.Sprintf("expected leaf %s (a root at position %d) is not held", hs(h), n.Pos)
			}
			return "lost-leaf", fmt.Sprintf("expected leaf %s (position %d) is not held", hs(h), f.LeafPos[h])
		}
	}
	wantP, _ := f.CanonProof(proof.Targets)
	if len(hashes) == 0 {
		wantP = u.Proof{}
	}
	if !eqHashes(wantP.Proof, proof.Proof) {
		return "proof-not-canonical", fmt.Sprintf("targets %v: proof %s, canonical %s", proof.Targets, hashesStr(proof.Proof), hashesStr(wantP.Proof))
	}
	return "", ""
}

// lcReorder re-encodes the client's cached proof through the public GetProofSubset with the
// wanted targets in a shuffled order (and sometimes one leaf dropped) before the next
// Update/Undo: a cached proof need not list its targets in ascending order (added after seeded
// change C08g).  Deterministic in (tag, op index, sub index).
func lcReorder(c *core.Ctx, tag uint64, oi, sub int, m *rm.Model, numLeaves uint64, hashes []Hash, proof *u.Proof, want map[Hash]bool, when string) ([]Hash, bool) {
	rng := rand.New(rand.NewSource(int64(tag*1000003 + uint64(oi)*131 + uint64(sub))))
	// The client may also start watching leaves that exist already: it gets their proof from a
	// full prover (here: the reference model's canonical proof) and combines it with what it
	// holds through the public AddProof; the combined proof is what the next Update/Undo sees.
	if m != nil && (tag+uint64(oi)*7+uint64(sub))%4 == 1 {
		held := map[Hash]bool{}
		for _, h := range hashes {
			held[h] = true
		}
		var extra []Hash
		live := m.Live()
		rng.Shuffle(len(live), func(i, j int) { live[i], live[j] = live[j], live[i] })
		for _, sl := range live {
			if h := m.Leaves[sl]; !held[h] && len(extra) < 1+int(tag%2) {
				extra = append(extra, h)
			}
		}
		if len(extra) > 0 {
			pb, ok := m.Forest().ProofForHashes(extra)
			if ok {
				nh, np := u.AddProof(cloneProof(*proof), pb, cloneHashes(hashes), cloneHashes(extra), numLeaves)
				for _, h := range extra {
					want[h] = true
				}
				*proof = np
				hashes = nh
				c.Count("leaves_added_to_the_cached_proof_through_AddProof_before_"+when, len(extra))
			}
		}
	}
	if len(hashes) < 2 || (tag+uint64(oi)*5+uint64(sub))%3 != 0 {
		return hashes, true
	}
	idx := rng.Perm(len(hashes))
	dropped := -1
	if len(hashes) >= 3 && rng.Intn(2) == 0 {
		dropped = idx[len(idx)-1]
		idx = idx[:len(idx)-1]
	}
	wants := make([]uint64, len(idx))
	for i, j := range idx {
		wants[i] = proof.Targets[j]
	}
	nh, np, err := u.GetProofSubset(cloneProof(*proof), cloneHashes(hashes), cloneU64(wants), numLeaves)
	if err != nil {
		c.Violate("GetProofSubset", "error-on-held-targets", "reorder-"+when, fmt.Sprintf("op %d: wants %v of targets %v: %v", oi, wants, proof.Targets, err))
		return hashes, false
	}
	if len(nh) != len(wants) || len(np.Targets) != len(wants) {
		c.Violate("GetProofSubset", "length-mismatch", "reorder-"+when, fmt.Sprintf("op %d: wants %v: %d hashes, %d targets", oi, wants, len(nh), len(np.Targets)))
		return hashes, false
	}
	if dropped >= 0 {
		delete(want, hashes[dropped])
	}
	*proof = np
	c.Count("cached_proof_reordered_before_"+when, 1)
	return nh, true
}

type lcSnap struct {
	before *rm.Model
	rec    *BlockRec
	stump  u.Stump
	ctr    uint64
}

func lcCheck(c *core.Ctx, s lcScenario, judgeUndo bool) {
	c.SetScenario(s)
	w := NewWorld(s.Tag, nil)
	w.SetLeafMode(s.LeafMode)
	if s.LeafMode != "" {
		c.Count("runs_with_leaf_mode_"+s.LeafMode, 1)
	}
	var proof u.Proof
	var hashes []Hash
	want := map[Hash]bool{}
	var snaps []lcSnap
	afterUndo := false
	for oi, op := range s.Ops {
		if op.Block != nil {
			b := *op.Block
			rec := w.PrepareBlock(b)
			if len(rec.DelHashes) > 0 && (s.Tag+uint64(oi)*3)%5 == 2 {
				// a block whose deletion proof arrives with a surplus trailing hash: every verifier
				// accepts it (C05), so the client sees it in Update's stump and later in Undo too
				// (added after seeded change C08h)
				var junk Hash
				junk[0], junk[1], junk[31] = 0xEE, byte(oi), 1
				rec.Proof.Proof = append(cloneHashes(rec.Proof.Proof), junk)
				c.Count("blocks_whose_proof_carries_a_surplus_hash", 1)
			}
			prevStump := u.Stump{Roots: cloneHashes(w.Stump.Roots), NumLeaves: w.Stump.NumLeaves}
			snap := lcSnap{before: rec.Before, rec: rec, stump: prevStump, ctr: w.Ctr}
			if !w.ApplyToStump(rec, func(site, clause, trigger, detail string) {
				c.Violate(site, "setup:"+clause, trigger, fmt.Sprintf("op %d: %s", oi, detail))
			}) {
				return
			}
			w.CommitModel(rec)
			snaps = append(snaps, snap)
			t := traits(rec)
			var err error
			var okR bool
			if hashes, okR = lcReorder(c, s.Tag, oi, 0, rec.Before, prevStump.NumLeaves, hashes, &proof, want, "update"); !okR {
				return
			}
			heldBefore := len(hashes)
			hashes, err = proof.Update(hashes, cloneHashes(rec.AddHashes), cloneU64(rec.Proof.Targets), append([]uint32(nil), op.Rem...), rec.UD)
			site := "Proof.Update"
			if afterUndo {
				site = "Proof.Update-after-undo"
			}
			if err != nil {
				c.Violate(site, "error", "", fmt.Sprintf("op %d: %v", oi, err))
				return
			}
			for _, h := range rec.DelHashes {
				delete(want, h)
			}
			remRoot := false
			f := w.M.Forest()
			for _, i := range op.Rem {
				if int(i) < len(rec.AddHashes) {
					want[rec.AddHashes[i]] = true
					if n := f.Nodes[f.LeafPos[rec.AddHashes[i]]]; n != nil && n.IsRoot {
						remRoot = true
					}
				}
			}
			if judgeUndo && !afterUndo {
				// in C08 runs the plain updates before any undo are C07's business
				if cl, _ := checkCached(f, hashes, proof, want); cl != "" {
					c.Count("runs_abandoned_pre_undo_update_mismatch", 1)
					return
				}
				continue
			}
			c.Eval(1)
			trig := ""
			if t.OverwritesEmpty {
				trig = joinTrig(trig, "adds-overwrite-empty-root")
			}
			if remRoot {
				trig = joinTrig(trig, "remembered-add-is-root")
			}
			if cl, detail := checkCached(f, hashes, proof, want); cl != "" {
				c.Violate(site, cl, trig, fmt.Sprintf("op %d (dels %v adds %d rem %v; N=%d): %s", oi, b.Dels, b.Adds, op.Rem, f.N, detail))
				return
			}
			if len(hashes) > 0 {
				if _, err := u.Verify(w.Stump, cloneHashes(hashes), cloneProof(proof)); err != nil {
					c.Violate(site, "verify-rejects", trig, fmt.Sprintf("op %d: %v", oi, err))
					return
				}
			}
			if !judgeUndo {
				countTraits(c, t)
				if remRoot {
					c.Count("updates_remembering_a_root_add", 1)
				}
				c.Max("max_held_leaves", len(hashes))
				if heldBefore > 0 || len(op.Rem) > 0 {
					c.Distinct(core.FP(rec.Before.Alive, heldSlots(w.M, hashes), sortedInts(b.Dels), b.Adds, fmt.Sprint(op.Rem)))
				}
			} else {
				c.Count("post_undo_updates_checked", 1)
			}
			continue
		}
		// undo k blocks newest-first
		for i := 0; i < op.Undo && len(snaps) > 0; i++ {
			sn := snaps[len(snaps)-1]
			snaps = snaps[:len(snaps)-1]
			rec := sn.rec
			var okR bool
			if hashes, okR = lcReorder(c, s.Tag, oi, i+1, w.M, w.Stump.NumLeaves, hashes, &proof, want, "undo"); !okR {
				return
			}
			heldBefore := cloneHashes(hashes)
			var err error
			hashes, err = proof.Undo(uint64(len(rec.AddHashes)), w.Stump.NumLeaves, cloneU64(rec.Proof.Targets), cloneHashes(rec.DelHashes),
				hashes, cloneU64(rec.UD.ToDestroy), cloneProof(rec.Proof))
			trig := ""
			if len(rec.UD.ToDestroy) > 0 {
				trig = joinTrig(trig, "toDestroy>0")
			}
			if sn.stump.NumLeaves == 0 {
				trig = joinTrig(trig, "to-empty-accumulator")
			}
			if judgeUndo {
				c.Eval(1)
			}
			if err != nil {
				if judgeUndo {
					c.Violate("Proof.Undo", "error", trig, fmt.Sprintf("op %d undo #%d: %v", oi, i, err))
				}
				return
			}
			// roll the world back
			w.Stump = sn.stump
			w.M = sn.before.Clone()
			w.Recs = w.Recs[:len(w.Recs)-1]
			// (w.Ctr keeps growing: a new branch gets new leaf hashes)
			added := map[Hash]bool{}
			for _, h := range rec.AddHashes {
				added[h] = true
			}
			exp := map[Hash]bool{}
			for _, h := range heldBefore {
				if !added[h] {
					exp[h] = true
				}
			}
			want = exp
			if !judgeUndo {
				continue
			}
			f := w.M.Forest()
			got := map[Hash]bool{}
			for _, h := range hashes {
				got[h] = true
			}
			desc := fmt.Sprintf("op %d undo #%d of block (dels %v adds %d, ToDestroy %v), back to N=%d; held before undo %d leaves",
				oi, i, rec.Blk.Dels, rec.Blk.Adds, rec.UD.ToDestroy, f.N, len(heldBefore))
			for _, h := range hashes {
				if added[h] {
					c.Violate("Proof.Undo", "holds-leaf-added-by-undone-block", trig, desc+fmt.Sprintf(": still holds %s", hs(h)))
					return
				}
				if !exp[h] {
					c.Violate("Proof.Undo", "invents-leaf", trig, desc+fmt.Sprintf(": holds %s which it did not hold before", hs(h)))
					return
				}
			}
			if cl, detail := checkCached(f, hashes, proof, exp); cl != "" {
				if cl == "lost-leaf" && len(rec.UD.ToDestroy) > 0 {
					// Recorded finding D6 is identified narrowly: every lost leaf must sit, in the
					// forest AFTER the block, in a tree that contains one of the overwritten
					// empty-root positions (that is the set Proof.undoAdd throws away).  A leaf
					// lost from any other tree is a different violation.
					fa := rec.After.Forest()
					hit := map[int]bool{}
					for _, d := range rec.UD.ToDestroy {
						if ti := fa.TreeOf(d); ti >= 0 {
							hit[ti] = true
						}
					}
					for h := range exp {
						if got[h] {
							continue
						}
						if pos, ok := fa.LeafPos[h]; !ok || !hit[fa.Nodes[pos].Tree] {
							trig = joinTrig("toDestroy>0,lost-leaf-outside-the-overwritten-trees", strings.TrimPrefix(trig, "toDestroy>0"))
							break
						}
					}
				}
				c.Violate("Proof.Undo", cl, trig, desc+": "+detail)
				return
			}
			if len(hashes) > 0 {
				if _, err := u.Verify(w.Stump, cloneHashes(hashes), cloneProof(proof)); err != nil {
					c.Violate("Proof.Undo", "verify-rejects", trig, desc+": "+err.Error())
					return
				}
			}
			c.Count("undos_checked", 1)
			if len(rec.UD.ToDestroy) > 0 {
				c.Count("undos_with_ToDestroy", 1)
			}
			if sn.stump.NumLeaves == 0 {
				c.Count("undos_to_empty_accumulator", 1)
			}
			c.Max("max_undo_depth", i+1)
			if len(heldBefore) > 0 {
				c.Distinct(core.FP(rec.Before.Alive, rec.After.Alive, heldSlotsIn(rec.After, heldBefore), sortedInts(rec.Blk.Dels), rec.Blk.Adds))
			}
			afterUndo = true
		}
		afterUndo = true
	}
	if c.WantSample(c.Suite) {
		c.Sample(c.Suite, map[string]any{"scenario": s, "final_held_targets": proof.Targets, "final_N": w.M.N()})
	}
}

func heldSlots(m *rm.Model, hashes []Hash) []int { return heldSlotsIn(m, hashes) }

func heldSlotsIn(m *rm.Model, hashes []Hash) []int {
	idx := map[Hash]int{}
	for i, h := range m.Leaves {
		idx[h] = i
	}
	var out []int
	for _, h := range hashes {
		if s, ok := idx[h]; ok {
			out = append(out, s)
		} else {
			out = append(out, -1)
		}
	}
	sort.Ints(out)
	return out
}
