package mon

import (
	"encoding/hex"
	"math/rand"
	"sort"

	rm "verifharness/refmodel"
)

// Adversarial verifier inputs (DESIGN.md section 4), shared by C03 and C04.

// claim is one (hashes, targets, proof hashes) triple handed to a verifier.
type claim struct {
	Hashes  []Hash
	Targets []uint64
	Proof   []Hash
	Kind    string // generator / mutation names, for coverage counters
}

// claimJSON is the replayable form (hashes in hex).
type claimJSON struct {
	Hashes  []string `json:"hashes"`
	Targets []uint64 `json:"targets"`
	Proof   []string `json:"proof"`
	Kind    string   `json:"kind,omitempty"`
}

func hx(h Hash) string { return hex.EncodeToString(h[:]) }

func unhx(s string) Hash {
	var h Hash
	b, _ := hex.DecodeString(s)
	copy(h[:], b)
	return h
}

func hxs(hs_ []Hash) []string {
	out := make([]string, len(hs_))
	for i, h := range hs_ {
		out[i] = hx(h)
	}
	return out
}

func unhxs(ss []string) []Hash {
	out := make([]Hash, len(ss))
	for i, s := range ss {
		out[i] = unhx(s)
	}
	return out
}

func (c claim) JSON() claimJSON {
	return claimJSON{Hashes: hxs(c.Hashes), Targets: cloneU64(c.Targets), Proof: hxs(c.Proof), Kind: c.Kind}
}

func (j claimJSON) Claim() claim {
	return claim{Hashes: unhxs(j.Hashes), Targets: cloneU64(j.Targets), Proof: unhxs(j.Proof), Kind: j.Kind}
}

func (c claim) clone() claim {
	return claim{Hashes: cloneHashes(c.Hashes), Targets: cloneU64(c.Targets), Proof: cloneHashes(c.Proof), Kind: c.Kind}
}

// hostileGen draws claims against one forest state.
type hostileGen struct {
	rng       *rand.Rand
	f         *rm.Forest // may be nil for synthetic stumps
	n         uint64
	h         uint8
	roots     []Hash
	nodePos   []uint64 // positions of existing nodes, ascending
	leafPos   []uint64 // positions of live leaves, ascending
	allowZero bool
	tag       uint64
	fresh     uint64
}

func newHostileGen(rng *rand.Rand, f *rm.Forest, n uint64, roots []Hash, allowZero bool, tag uint64) *hostileGen {
	g := &hostileGen{rng: rng, f: f, n: n, h: rm.Rows(n), roots: roots, allowZero: allowZero, tag: tag}
	if f != nil {
		for p, nd := range f.Nodes {
			g.nodePos = append(g.nodePos, p)
			if nd.Leaf >= 0 {
				g.leafPos = append(g.leafPos, p)
			}
		}
		sort.Slice(g.nodePos, func(a, b int) bool { return g.nodePos[a] < g.nodePos[b] })
		sort.Slice(g.leafPos, func(a, b int) bool { return g.leafPos[a] < g.leafPos[b] })
	}
	return g
}

func (g *hostileGen) freshHash() Hash {
	g.fresh++
	return rm.FreshHash(g.tag^0xF00D, g.fresh)
}

// top is 2^(h+1)-2, the highest position of the forest geometry.
func (g *hostileGen) top() uint64 {
	if g.h >= 63 {
		return ^uint64(0) - 1
	}
	return (uint64(1) << (g.h + 1)) - 2
}

// target draws one target position; prev are the targets chosen so far.
func (g *hostileGen) target(prev []uint64) uint64 {
	r := g.rng
	for {
		switch r.Intn(12) {
		case 0, 1:
			if len(g.nodePos) > 0 {
				return g.nodePos[r.Intn(len(g.nodePos))]
			}
		case 2, 3:
			if len(g.leafPos) > 0 {
				return g.leafPos[r.Intn(len(g.leafPos))]
			}
		case 4: // anywhere in the geometry, possibly holding no node
			if g.h >= 63 {
				return r.Uint64()
			}
			return r.Uint64() % (g.top() + 2)
		case 5: // around the top
			return g.top() + uint64(r.Intn(7)) - 1
		case 6: // power of two +-1
			return (uint64(1) << uint(r.Intn(64))) + uint64(r.Intn(3)) - 1
		case 7:
			return ^uint64(0) - uint64(r.Intn(4))
		case 8:
			return r.Uint64()
		case 9: // relative of an earlier target: sibling, parent, child, same offset one row up
			if len(prev) > 0 {
				p := prev[r.Intn(len(prev))]
				row, k := rm.OffsetOf(p, g.h)
				if row > g.h {
					return p ^ 1
				}
				switch r.Intn(5) {
				case 0:
					return p ^ 1
				case 1:
					if row < g.h {
						return rm.Pos(row+1, k/2, g.h)
					}
				case 2:
					if row > 0 {
						return rm.Pos(row-1, 2*k+uint64(r.Intn(2)), g.h)
					}
				case 3:
					if row < g.h {
						return rm.Pos(row+1, k, g.h)
					}
				case 4: // cousin
					return p ^ 2
				}
			}
		case 10: // duplicate
			if len(prev) > 0 {
				return prev[r.Intn(len(prev))]
			}
		case 11: // a root position (also of an empty tree)
			if g.f != nil && len(g.f.Trees) > 0 {
				return g.f.Trees[r.Intn(len(g.f.Trees))].Pos
			}
		}
	}
}

// hashFor draws the hash claimed at position p.
func (g *hostileGen) hashFor(p uint64) Hash {
	r := g.rng
	for {
		switch r.Intn(8) {
		case 0, 1, 2, 3: // the true hash, if any
			if g.f != nil {
				if nd := g.f.Nodes[p]; nd != nil {
					return nd.Hash
				}
			}
		case 4: // hash of some other node
			if len(g.nodePos) > 0 {
				return g.f.Nodes[g.nodePos[r.Intn(len(g.nodePos))]].Hash
			}
		case 5:
			if len(g.roots) > 0 {
				h := g.roots[r.Intn(len(g.roots))]
				if h != rm.Zero || g.allowZero {
					return h
				}
			}
		case 6:
			return g.freshHash()
		case 7:
			if g.allowZero {
				return rm.Zero
			}
		}
	}
}

func (g *hostileGen) proofHash() Hash {
	r := g.rng
	switch r.Intn(6) {
	case 0, 1, 2:
		if len(g.nodePos) > 0 {
			return g.f.Nodes[g.nodePos[r.Intn(len(g.nodePos))]].Hash
		}
	case 3:
		if len(g.roots) > 0 {
			return g.roots[r.Intn(len(g.roots))]
		}
	case 4:
		if g.allowZero {
			return rm.Zero
		}
	}
	return g.freshHash()
}

// random draws a claim from the alphabets alone.
func (g *hostileGen) random() claim {
	r := g.rng
	var c claim
	c.Kind = "random"
	nt := r.Intn(7)
	for i := 0; i < nt; i++ {
		c.Targets = append(c.Targets, g.target(c.Targets))
	}
	for _, t := range c.Targets {
		c.Hashes = append(c.Hashes, g.hashFor(t))
	}
	switch r.Intn(8) {
	case 0: // mismatched lengths
		if len(c.Hashes) > 0 && r.Intn(2) == 0 {
			c.Hashes = c.Hashes[:len(c.Hashes)-1]
		} else {
			c.Hashes = append(c.Hashes, g.freshHash())
		}
		c.Kind = "random+lenmismatch"
	}
	// proof: the canonical one when it exists (then perhaps damaged), or noise
	if g.f != nil && r.Intn(2) == 0 {
		if pr, ok := g.f.CanonProof(c.Targets); ok {
			c.Proof = pr.Proof
			c.Kind += "+canonproof"
		}
	}
	if c.Proof == nil {
		np := r.Intn(13)
		if r.Intn(20) == 0 {
			np = 40 + r.Intn(200) // oversized
		}
		for i := 0; i < np; i++ {
			c.Proof = append(c.Proof, g.proofHash())
		}
	}
	return c
}

// honest draws a true claim: existing nodes (leaves mostly, sometimes
// internal nodes) with their hashes and the canonical proof.
func (g *hostileGen) honest() (claim, bool) {
	if g.f == nil || len(g.nodePos) == 0 {
		return claim{}, false
	}
	r := g.rng
	var c claim
	c.Kind = "honest"
	nt := 1 + r.Intn(5)
	seen := map[uint64]bool{}
	for i := 0; i < nt; i++ {
		var p uint64
		if r.Intn(4) == 0 || len(g.leafPos) == 0 {
			p = g.nodePos[r.Intn(len(g.nodePos))]
		} else {
			p = g.leafPos[r.Intn(len(g.leafPos))]
		}
		if seen[p] {
			continue
		}
		seen[p] = true
		c.Targets = append(c.Targets, p)
		c.Hashes = append(c.Hashes, g.f.Nodes[p].Hash)
	}
	pr, ok := g.f.CanonProof(c.Targets)
	if !ok {
		return claim{}, false
	}
	c.Proof = pr.Proof
	return c, true
}

var mutationNames = []string{"swap-targets", "swap-hashes", "target->sibling", "target->parent", "target->cousin", "target->other-tree", "dup-target",
	"flip-proof-hash", "drop-proof-hash", "insert-proof-hash", "dup-proof-hash", "permute-proof", "hash->fresh", "hash->root", "hash->other-node",
	"hash->zero", "drop-hash", "target->beyond", "add-nested-target", "target->child", "append-junk-proof", "hash->sibling-hash",
	"hash-tail-flip", "proof-tail-flip", "hash-head-flip", "drop-all-hashes", "target+=position-space"}

// mutate applies one structured mutation; ok=false if it does not apply.
func (g *hostileGen) mutate(c claim) (claim, bool) {
	r := g.rng
	c = c.clone()
	m := mutationNames[r.Intn(len(mutationNames))]
	nt := len(c.Targets)
	pick := func() int { return r.Intn(nt) }
	switch m {
	case "swap-targets":
		if nt < 2 {
			return c, false
		}
		i, j := pick(), pick()
		if i == j {
			return c, false
		}
		c.Targets[i], c.Targets[j] = c.Targets[j], c.Targets[i]
	case "swap-hashes":
		if len(c.Hashes) < 2 {
			return c, false
		}
		i, j := r.Intn(len(c.Hashes)), r.Intn(len(c.Hashes))
		if i == j {
			return c, false
		}
		c.Hashes[i], c.Hashes[j] = c.Hashes[j], c.Hashes[i]
	case "target->sibling":
		if nt == 0 {
			return c, false
		}
		c.Targets[pick()] ^= 1
	case "target->cousin":
		if nt == 0 {
			return c, false
		}
		c.Targets[pick()] ^= 2
	case "target->parent", "target->child", "target->other-tree":
		if nt == 0 {
			return c, false
		}
		i := pick()
		row, k := rm.OffsetOf(c.Targets[i], g.h)
		if row > g.h {
			return c, false
		}
		switch m {
		case "target->parent":
			if row >= g.h {
				return c, false
			}
			c.Targets[i] = rm.Pos(row+1, k/2, g.h)
		case "target->child":
			if row == 0 {
				return c, false
			}
			c.Targets[i] = rm.Pos(row-1, 2*k+uint64(r.Intn(2)), g.h)
		default:
			// same row, same offset inside another tree of the forest
			if g.f == nil || len(g.f.Trees) < 2 {
				return c, false
			}
			ti := g.f.TreeOf(c.Targets[i])
			tj := r.Intn(len(g.f.Trees))
			if ti < 0 || tj == ti {
				return c, false
			}
			a, b := g.f.Trees[ti], g.f.Trees[tj]
			if row > b.Row {
				// claim it at the other tree's root instead
				c.Targets[i] = b.Pos
			} else {
				within := k - (a.K << (a.Row - row))
				width := uint64(1) << (b.Row - row)
				c.Targets[i] = rm.Pos(row, (b.K<<(b.Row-row))+within%width, g.h)
			}
		}
	case "dup-target":
		if nt == 0 {
			return c, false
		}
		i := pick()
		c.Targets = append(c.Targets, c.Targets[i])
		if i < len(c.Hashes) {
			if r.Intn(2) == 0 {
				c.Hashes = append(c.Hashes, c.Hashes[i])
			} else {
				c.Hashes = append(c.Hashes, g.hashFor(c.Targets[i]^1))
			}
		}
	case "add-nested-target":
		if nt == 0 {
			return c, false
		}
		i := pick()
		row, k := rm.OffsetOf(c.Targets[i], g.h)
		if row >= g.h {
			return c, false
		}
		up := uint8(1 + r.Intn(int(g.h-row)))
		p := rm.Pos(row+up, k>>up, g.h)
		c.Targets = append(c.Targets, p)
		c.Hashes = append(c.Hashes, g.hashFor(p))
	case "target->beyond":
		if nt == 0 {
			return c, false
		}
		c.Targets[pick()] = g.target(nil)
	case "target+=position-space":
		// an alias of a true position: the same bits below the size of the position space (2^(h+1)),
		// something else above - arithmetic that masks or shifts without looking at the high bits takes
		// it for the true position (round 10, seeded change C03j).  Otherwise the claim stays honest.
		if nt == 0 {
			return c, false
		}
		c.Targets[pick()] += uint64(1+r.Intn(3)) << (uint(g.h) + 1 + uint(r.Intn(3)))
	case "hash-tail-flip", "hash-head-flip":
		// a claimed hash that agrees with the true one in its first 12 bytes (the pointer
		// forest's map key) / only in its last 20
		if len(c.Hashes) == 0 {
			return c, false
		}
		i := r.Intn(len(c.Hashes))
		if m == "hash-tail-flip" {
			c.Hashes[i][12+r.Intn(20)] ^= 1 << uint(r.Intn(8))
		} else {
			c.Hashes[i][r.Intn(12)] ^= 1 << uint(r.Intn(8))
		}
	case "proof-tail-flip":
		if len(c.Proof) == 0 {
			return c, false
		}
		c.Proof[r.Intn(len(c.Proof))][12+r.Intn(20)] ^= 1 << uint(r.Intn(8))
	case "flip-proof-hash":
		if len(c.Proof) == 0 {
			return c, false
		}
		c.Proof[r.Intn(len(c.Proof))][r.Intn(32)] ^= 1 << uint(r.Intn(8))
	case "drop-proof-hash":
		if len(c.Proof) == 0 {
			return c, false
		}
		i := r.Intn(len(c.Proof))
		c.Proof = append(c.Proof[:i], c.Proof[i+1:]...)
	case "insert-proof-hash":
		i := r.Intn(len(c.Proof) + 1)
		c.Proof = append(c.Proof[:i], append([]Hash{g.proofHash()}, c.Proof[i:]...)...)
	case "dup-proof-hash":
		if len(c.Proof) == 0 {
			return c, false
		}
		i := r.Intn(len(c.Proof))
		c.Proof = append(c.Proof[:i], append([]Hash{c.Proof[i]}, c.Proof[i:]...)...)
	case "permute-proof":
		if len(c.Proof) < 2 {
			return c, false
		}
		r.Shuffle(len(c.Proof), func(i, j int) { c.Proof[i], c.Proof[j] = c.Proof[j], c.Proof[i] })
	case "append-junk-proof":
		for i := 0; i < 1+r.Intn(3); i++ {
			c.Proof = append(c.Proof, g.proofHash())
		}
	case "hash->fresh":
		if len(c.Hashes) == 0 {
			return c, false
		}
		c.Hashes[r.Intn(len(c.Hashes))] = g.freshHash()
	case "hash->root":
		if len(c.Hashes) == 0 || len(g.roots) == 0 {
			return c, false
		}
		h := g.roots[r.Intn(len(g.roots))]
		if h == rm.Zero && !g.allowZero {
			return c, false
		}
		c.Hashes[r.Intn(len(c.Hashes))] = h
	case "hash->other-node":
		if len(c.Hashes) == 0 || len(g.nodePos) == 0 {
			return c, false
		}
		c.Hashes[r.Intn(len(c.Hashes))] = g.f.Nodes[g.nodePos[r.Intn(len(g.nodePos))]].Hash
	case "hash->sibling-hash":
		if len(c.Hashes) == 0 || g.f == nil || nt == 0 {
			return c, false
		}
		i := r.Intn(len(c.Hashes))
		if i >= nt {
			return c, false
		}
		nd := g.f.Nodes[c.Targets[i]^1]
		if nd == nil {
			return c, false
		}
		c.Hashes[i] = nd.Hash
	case "hash->zero":
		if len(c.Hashes) == 0 || !g.allowZero {
			return c, false
		}
		c.Hashes[r.Intn(len(c.Hashes))] = rm.Zero
	case "drop-hash":
		if len(c.Hashes) == 0 {
			return c, false
		}
		c.Hashes = c.Hashes[:len(c.Hashes)-1]
	case "drop-all-hashes":
		if len(c.Hashes) == 0 {
			return c, false
		}
		c.Hashes = c.Hashes[:0]
	}
	c.Kind += "+" + m
	return c, true
}

// mutant draws an honest claim and applies 1-3 mutations.
func (g *hostileGen) mutant() (claim, bool) {
	c, ok := g.honest()
	if !ok {
		return c, false
	}
	c.Kind = "mutant"
	n := 1 + g.rng.Intn(3)
	if g.rng.Intn(3) > 0 {
		n = 1
	}
	applied := 0
	for tries := 0; applied < n && tries < 20; tries++ {
		if c2, ok := g.mutate(c); ok {
			c = c2
			applied++
		}
	}
	return c, applied > 0
}

// next draws the next claim: mutants of honest proofs and alphabet claims.
func (g *hostileGen) next() claim {
	if g.f != nil && g.rng.Intn(5) < 3 {
		if c, ok := g.mutant(); ok {
			return c
		}
	}
	if g.f != nil && g.rng.Intn(25) == 0 {
		if c, ok := g.honest(); ok {
			return c
		}
	}
	return g.random()
}

// claimTrue reports whether every (hash, target) pair of c is a fact of f:
// the node at targets[i] exists and has hash hashes[i].  It also returns the
// index of the first false pair.  With mismatched lengths only the pairs that
// exist are judged (a hash without a position, or a position without a hash,
// states no fact).
func claimTrue(f *rm.Forest, c claim) (bool, int) {
	for i, t := range c.Targets {
		if i >= len(c.Hashes) {
			break // a target without a hash states nothing
		}
		nd := f.Nodes[t]
		if nd == nil || nd.Hash != c.Hashes[i] {
			return false, i
		}
	}
	return true, -1
}

func hasZero(hs_ []Hash) bool {
	for _, h := range hs_ {
		if h == rm.Zero {
			return true
		}
	}
	return false
}
