// Package mon holds one monitor per property (DESIGN.md section 5).
package mon

import (
	"fmt"
	"math/rand"
	"sort"
	"strings"
	"sync/atomic"

	u "github.com/utreexo/utreexo"

	"verifharness/core"
	"verifharness/gen"
	rm "verifharness/refmodel"
)

type Hash = u.Hash
type Leaf = u.Leaf

// InstCfg selects an implementation and its configuration.
type InstCfg struct {
	Kind string `json:"kind"` // pollard | mapfull | mappartial
	Rows uint8  `json:"rows"` // initial TotalRows for map forests
}

func (c InstCfg) String() string {
	if c.Kind == "pollard" {
		return "pollard"
	}
	return fmt.Sprintf("%s/%d", c.Kind, c.Rows)
}

// Inst is one live implementation instance.
type Inst struct {
	Cfg  InstCfg
	Name string
	U    u.Utreexo
	MP   *u.MapPollard
	P    *u.Pollard
	// Rem is the shadow set of remembered live leaves (partial instances).
	Rem map[Hash]bool
}

func (in *Inst) Partial() bool { return in.Cfg.Kind == "mappartial" }

func NewInst(c InstCfg) *Inst {
	in := &Inst{Cfg: c, Name: c.String(), Rem: map[Hash]bool{}}
	switch c.Kind {
	case "pollard":
		p := u.NewAccumulator()
		in.P = &p
		in.U = &p
	case "mapfull":
		m := u.NewMapPollard(true)
		m.TotalRows = c.Rows
		in.MP = &m
		in.U = &m
	case "mappartial":
		m := u.NewMapPollard(false)
		m.TotalRows = c.Rows
		in.MP = &m
		in.U = &m
	default:
		panic("bad inst kind " + c.Kind)
	}
	return in
}

// StdCfgs returns the configuration list for a history index: always stump,
// pollard, and a rotation of map-forest heights (DESIGN 4).
func StdCfgs(rng *rand.Rand, tier string, idx int) []InstCfg {
	out := []InstCfg{{Kind: "pollard"}}
	out = append(out, InstCfg{"mapfull", 0}, InstCfg{"mapfull", 63})
	if tier == "thorough" {
		out = append(out, InstCfg{"mapfull", uint8(idx % 64)}, InstCfg{"mapfull", uint8(rng.Intn(64))})
		out = append(out, InstCfg{"mappartial", uint8((idx / 64) % 64)})
	} else {
		out = append(out, InstCfg{"mapfull", []uint8{1, 2, 3, 5, 7, 31, 50}[idx%7]}, InstCfg{"mapfull", uint8(rng.Intn(64))})
	}
	out = append(out, InstCfg{"mappartial", []uint8{0, 2, 63}[idx%3]})
	return out
}

// BlockRec is everything about one applied block.
type BlockRec struct {
	Blk       gen.Block
	DelHashes []Hash
	AddHashes []Hash
	Adds      []u.Leaf
	Proof     u.Proof // model's canonical proof, targets in request order
	PrevRoots []Hash
	PrevN     uint64
	Before    *rm.Model // model before the block
	After     *rm.Model
	UD        u.UpdateData
	// Shared: the instances are handed these very slices, without defensive copies, the way a
	// caller that trusts C17 would (World.Shared)
	Shared bool
}

func (rec *BlockRec) hs(x []Hash) []Hash {
	if rec.Shared {
		return x
	}
	return cloneHashes(x)
}

func (rec *BlockRec) pr(p u.Proof) u.Proof {
	if rec.Shared {
		return p
	}
	return cloneProof(p)
}

// World runs a history against the model and a set of instances.
type World struct {
	Tag   uint64
	Ctr   uint64
	M     *rm.Model
	Stump u.Stump
	Insts []*Inst
	Recs  []*BlockRec
	// Shared: block records are passed to the instances without defensive copies
	Shared bool
	// LeafOverride, if set, may replace the hash of the addIdx-th leaf added by the
	// block that is being prepared (blockIdx = number of blocks committed so far;
	// rec holds the state before the block, the deleted hashes and, in AddHashes,
	// the hashes of the block's additions decided so far).
	LeafOverride func(blockIdx, addIdx int, rec *BlockRec) (Hash, bool)
}

// SetLeafMode installs one of the adversarial leaf-hash modes (a deterministic
// function of the world's tag, the block index and the addition index):
//
//	"readd":  some additions reuse the hash of a leaf that the same block deletes, or of a
//	          leaf that died earlier - still distinct from every live leaf;
//	"collide": some additions are the hash of an internal node of the forest before the block;
//	"prefix": some additions share their first 12 bytes (the pointer forest's map key)
//	          with the previous addition of the block, with a live leaf or with a root,
//	          and differ in the rest.
func (w *World) SetLeafMode(mode string) {
	if mode == "" {
		return
	}
	tag := w.Tag
	w.LeafOverride = func(blockIdx, addIdx int, rec *BlockRec) (Hash, bool) {
		d := core.FP("leafmode", tag, blockIdx, addIdx)
		switch mode {
		case "readd":
			if d%4 != 0 {
				return Hash{}, false
			}
			live := map[Hash]bool{}
			for s, h := range rec.Before.Leaves {
				if rec.Before.Alive[s] {
					live[h] = true
				}
			}
			for _, h := range rec.DelHashes {
				delete(live, h)
			}
			for _, h := range rec.AddHashes[:addIdx] {
				live[h] = true
			}
			var cand []Hash
			seen := map[Hash]bool{}
			for _, h := range rec.DelHashes {
				if !live[h] && !seen[h] {
					seen[h] = true
					cand = append(cand, h)
				}
			}
			for s, h := range rec.Before.Leaves {
				if !rec.Before.Alive[s] && !live[h] && !seen[h] {
					seen[h] = true
					cand = append(cand, h)
				}
			}
			if len(cand) == 0 {
				return Hash{}, false
			}
			return cand[int((d>>8)%uint64(len(cand)))], true
		case "collide":
			// the hash of an internal node of the forest before the block
			if d%4 != 0 {
				return Hash{}, false
			}
			f := rec.Before.Forest()
			var internal []uint64
			for pos := uint64(0); pos < uint64(2)<<f.H; pos++ {
				if nd := f.Nodes[pos]; nd != nil && nd.Leaf < 0 {
					internal = append(internal, pos)
				}
			}
			if len(internal) == 0 {
				return Hash{}, false
			}
			h := f.Nodes[internal[int((d>>8)%uint64(len(internal)))]].Hash
			for _, l := range rec.Before.Leaves {
				if l == h {
					return Hash{}, false
				}
			}
			for _, l := range rec.AddHashes[:addIdx] {
				if l == h {
					return Hash{}, false
				}
			}
			return h, true
		case "prefix":
			if d%3 != 0 {
				return Hash{}, false
			}
			var src Hash
			switch {
			case addIdx > 0 && (d>>8)%3 == 0:
				src = rec.AddHashes[addIdx-1]
			case len(rec.PrevRoots) > 0 && (d>>8)%3 == 1:
				src = rec.PrevRoots[int((d>>16)%uint64(len(rec.PrevRoots)))]
			default:
				lv := rec.Before.Live()
				if len(lv) == 0 {
					return Hash{}, false
				}
				src = rec.Before.Leaves[lv[int((d>>16)%uint64(len(lv)))]]
			}
			if src == (Hash{}) {
				return Hash{}, false
			}
			h := rm.FreshHash(tag^0x9e3779b9, uint64(blockIdx)<<24|uint64(addIdx))
			copy(h[:12], src[:12])
			return h, true
		}
		return Hash{}, false
	}
}

func NewWorld(tag uint64, cfgs []InstCfg) *World {
	w := &World{Tag: tag, M: &rm.Model{}}
	for _, c := range cfgs {
		w.Insts = append(w.Insts, NewInst(c))
	}
	return w
}

type failFn func(site, clause, trigger, detail string)

func hs(h Hash) string { return fmt.Sprintf("%x", h[:4]) }

func hashesStr(hs_ []Hash) string {
	var sb strings.Builder
	sb.WriteString("[")
	for i, h := range hs_ {
		if i > 0 {
			sb.WriteString(" ")
		}
		sb.WriteString(hs(h))
	}
	sb.WriteString("]")
	return sb.String()
}

func eqHashes(a, b []Hash) bool {
	if len(a) != len(b) {
		return false
	}
	for i := range a {
		if a[i] != b[i] {
			return false
		}
	}
	return true
}

func eqU64(a, b []uint64) bool {
	if len(a) != len(b) {
		return false
	}
	for i := range a {
		if a[i] != b[i] {
			return false
		}
	}
	return true
}

func eqProof(a, b u.Proof) bool { return eqU64(a.Targets, b.Targets) && eqHashes(a.Proof, b.Proof) }

func proofStr(p u.Proof) string {
	return fmt.Sprintf("targets=%v proof=%s", p.Targets, hashesStr(p.Proof))
}

// Argument representation (round 10).  Every slice the harness hands to the library goes
// through cloneHashes / cloneU64.  Which Go value represents "these elements" is the caller's
// business and must not matter to the library, so it is varied per case (a function of the
// case index, hence reproduced by replays):
//
//	0: the classic one - nil for an empty list, a tight copy otherwise;
//	1: an empty list is a non-nil zero-length slice, and every copy is a window into a larger
//	   array whose tail [len:cap] holds junk (a library that appends to an argument and later
//	   reads or sorts "its" slice picks the junk up or tramples a neighbour);
//	2: the two alternate call by call.
var argRep atomic.Int32
var argRepCtr atomic.Uint32

var junkHash = func() (h Hash) {
	for i := range h {
		h[i] = 0xEE
	}
	return
}()

const junkU64 = 0xDEADBEEFDEADBEEF

func argRepRoomy() bool {
	switch argRep.Load() {
	case 1:
		return true
	case 2:
		return argRepCtr.Add(1)%2 == 0
	}
	return false
}

func cloneHashes(x []Hash) []Hash {
	if !argRepRoomy() {
		return append([]Hash(nil), x...)
	}
	spare := 1 + len(x)%3
	out := make([]Hash, len(x), len(x)+spare)
	copy(out, x)
	tail := out[len(x):cap(out)]
	for i := range tail {
		tail[i] = junkHash
	}
	return out
}

func cloneU64(x []uint64) []uint64 {
	if !argRepRoomy() {
		return append([]uint64(nil), x...)
	}
	spare := 1 + len(x)%3
	out := make([]uint64, len(x), len(x)+spare)
	copy(out, x)
	tail := out[len(x):cap(out)]
	for i := range tail {
		tail[i] = junkU64
	}
	return out
}

func init() {
	core.PreCase = func(c *core.Ctx) {
		switch c.Index % 5 {
		case 3:
			argRep.Store(1)
			c.Count("cases_with_roomy_argument_slices", 1)
		case 4:
			argRep.Store(2)
			c.Count("cases_with_alternating_argument_slices", 1)
		default:
			argRep.Store(0)
		}
	}
}
func cloneProof(p u.Proof) u.Proof {
	return u.Proof{Targets: cloneU64(p.Targets), Proof: cloneHashes(p.Proof)}
}

// PrepareBlock computes the block record (hashes, model proof) without applying it.
func (w *World) PrepareBlock(b gen.Block) *BlockRec {
	rec := &BlockRec{Blk: b, Before: w.M.Clone(), PrevN: w.M.N(), Shared: w.Shared}
	f := w.M.Forest()
	rec.PrevRoots = cloneHashes(f.Roots)
	for _, s := range b.Dels {
		rec.DelHashes = append(rec.DelHashes, w.M.Leaves[s])
	}
	if len(b.Dels) > 0 {
		pr, ok := f.ProofForHashes(rec.DelHashes)
		if !ok {
			panic("model: deleting a dead leaf")
		}
		rec.Proof = pr
	}
	after := w.M.Clone()
	ctr := w.Ctr
	_, rec.AddHashes = gen.ApplyToModel(after, b, w.Tag, &ctr)
	if w.LeafOverride != nil {
		for i := range rec.AddHashes {
			if h, ok := w.LeafOverride(len(w.Recs), i, rec); ok {
				rec.AddHashes[i] = h
				after.Leaves[len(rec.Before.Leaves)+i] = h
			}
		}
	}
	rec.After = after
	for i, h := range rec.AddHashes {
		l := u.Leaf{Hash: h}
		if i < len(b.Remember) {
			l.Remember = b.Remember[i]
		}
		rec.Adds = append(rec.Adds, l)
	}
	return rec
}

// CommitModel advances the model past a prepared block.
func (w *World) CommitModel(rec *BlockRec) {
	w.M = rec.After.Clone()
	w.Ctr += uint64(len(rec.AddHashes))
	w.Recs = append(w.Recs, rec)
}

// ApplyToStump applies the block to the world's stump.
func (w *World) ApplyToStump(rec *BlockRec, fail failFn) bool {
	ud, err := w.Stump.Update(cloneHashes(rec.DelHashes), cloneHashes(rec.AddHashes), cloneProof(rec.Proof))
	if err != nil {
		fail("Stump.Update", "error-on-honest-block", "", fmt.Sprintf("Stump.Update: %v", err))
		return false
	}
	rec.UD = ud
	return true
}

// ApplyToInst applies the block to one instance (partial instances first
// verify the deletion proof with remember=true, as their contract requires).
func ApplyToInst(in *Inst, rec *BlockRec, fail failFn) bool {
	// A partial forest may delete leaves it already remembers without being shown the
	// proof again; every other block (by parity of the leaf count) uses that shortcut.
	allRemembered := true
	for _, h := range rec.DelHashes {
		if !in.Rem[h] {
			allRemembered = false
		}
	}
	if in.Partial() && len(rec.DelHashes) > 0 && !(allRemembered && rec.PrevN%2 == 0) {
		if err := in.MP.Verify(rec.hs(rec.DelHashes), rec.pr(rec.Proof), true); err != nil {
			fail(in.Cfg.Kind+".Verify(remember)", "error-on-honest-proof", "", fmt.Sprintf("%s: %v", in.Name, err))
			return false
		}
	}
	adds := rec.Adds
	if !rec.Shared {
		adds = append([]u.Leaf(nil), rec.Adds...)
	}
	if err := in.U.Modify(adds, rec.hs(rec.DelHashes), rec.pr(rec.Proof)); err != nil {
		fail(in.Cfg.Kind+".Modify", "error-on-honest-block", "", fmt.Sprintf("%s: %v", in.Name, err))
		return false
	}
	if in.Partial() {
		for _, h := range rec.DelHashes {
			delete(in.Rem, h)
		}
		for _, l := range rec.Adds {
			if l.Remember {
				in.Rem[l.Hash] = true
			}
		}
	}
	return true
}

// ApplyBlock prepares, applies everywhere and commits.
func (w *World) ApplyBlock(b gen.Block, fail failFn) (*BlockRec, bool) {
	rec := w.PrepareBlock(b)
	ok := w.ApplyToStump(rec, fail)
	for _, in := range w.Insts {
		if !ApplyToInst(in, rec, fail) {
			ok = false
		}
	}
	w.CommitModel(rec)
	return rec, ok
}

// histShape fingerprints a history's shape for the distinct-case counter.
func histShape(h gen.History) []int {
	var out []int
	for _, b := range h.Blocks {
		d := append([]int(nil), b.Dels...)
		sort.Ints(d)
		out = append(out, -1, b.Adds)
		out = append(out, d...)
	}
	return out
}

// blockTraits classifies a block for coverage counters.
type blockTraits struct {
	EmptiesTree     bool
	OverwritesEmpty bool
	CrossesPow2     bool
	DeletesAll      bool
	SiblingPair     bool
	DeletesRootLeaf bool
}

func traits(rec *BlockRec) blockTraits {
	var t blockTraits
	f0 := rec.Before.Forest()
	mid := rec.Before.Clone()
	for _, s := range rec.Blk.Dels {
		mid.Alive[s] = false
	}
	f1 := mid.Forest()
	emptyBefore := 0
	for _, tr := range f0.Trees {
		if tr.Root == nil {
			emptyBefore++
		}
	}
	emptyMid := 0
	for _, tr := range f1.Trees {
		if tr.Root == nil {
			emptyMid++
		}
	}
	t.EmptiesTree = emptyMid > emptyBefore
	t.DeletesAll = len(rec.Blk.Dels) > 0 && mid.NumLive() == 0
	if rec.Blk.Adds > 0 && emptyMid > 0 {
		// does the carry of the additions meet an empty root?
		n := rec.PrevN
		cur := mid.Clone()
		for i := 0; i < rec.Blk.Adds && i < 256 && !t.OverwritesEmpty; i++ { // a coverage counter only: capped for very large blocks
			f := cur.Forest()
			for hh := uint8(0); (n>>hh)&1 == 1; hh++ {
				for _, tr := range f.Trees {
					if tr.Row == hh && tr.Root == nil {
						t.OverwritesEmpty = true
					}
				}
			}
			cur.Add(rm.LeafHash(^uint64(0), uint64(i)))
			n++
		}
	}
	if rec.Blk.Adds > 0 {
		t.CrossesPow2 = rm.Rows(rec.PrevN+uint64(rec.Blk.Adds)) > rm.Rows(rec.PrevN) && rec.PrevN > 0
	}
	del := map[int]bool{}
	for _, s := range rec.Blk.Dels {
		del[s] = true
	}
	for _, nd := range f0.Nodes {
		if nd.L != nil && nd.L.Leaf >= 0 && nd.R.Leaf >= 0 && del[nd.L.Leaf] && del[nd.R.Leaf] {
			t.SiblingPair = true
		}
	}
	for _, tr := range f0.Trees {
		if tr.Root != nil && tr.Root.Leaf >= 0 && del[tr.Root.Leaf] {
			t.DeletesRootLeaf = true
		}
	}
	return t
}

type counter interface {
	Count(name string, n int)
}

func countTraits(c counter, t blockTraits) {
	c.Count("blocks", 1)
	if t.EmptiesTree {
		c.Count("blocks_emptying_a_tree", 1)
	}
	if t.OverwritesEmpty {
		c.Count("blocks_overwriting_empty_root", 1)
	}
	if t.CrossesPow2 {
		c.Count("blocks_growing_forest_height", 1)
	}
	if t.DeletesAll {
		c.Count("blocks_deleting_all_leaves", 1)
	}
	if t.SiblingPair {
		c.Count("blocks_deleting_sibling_pair", 1)
	}
	if t.DeletesRootLeaf {
		c.Count("blocks_deleting_leaf_root", 1)
	}
}
