package mon

import (
	"bytes"
	"encoding/json"
	"fmt"
	"math/rand"
	"runtime"
	"runtime/debug"
	"sort"
	"strings"
	"sync"
	"sync/atomic"
	"time"

	"github.com/anishathalye/porcupine"
	u "github.com/utreexo/utreexo"

	"verifharness/core"
	"verifharness/gen"
	rm "verifharness/refmodel"
)

// C12 — the map forest is race-free and every query sees a whole-block state.
//
// Two monitors in one -race build (DESIGN.md 5 C12):
//   1. free-running readers against a writer; the race detector's reports are
//      collected by the driver from the GORACE log files;
//   2. the writer (or a serializing reader) is suspended at a verifPoint inside
//      its critical section while queries run; every recorded history is checked
//      for linearizability with porcupine against per-step reference states.

type c12Pause struct {
	Step int    `json:"step"` // 1-based index of the writer step that is suspended (for the Write site: the step started while the serializer is suspended)
	Site string `json:"site"`
	Nth  int    `json:"nth"`
}

type c12Scenario struct {
	Cfg     InstCfg   `json:"cfg"`
	Tag     uint64    `json:"tag"`
	Ops     []fOp     `json:"ops"`
	Restore bool      `json:"restore,omitempty"` // ops build a source forest; the monitored forest only Reads its bytes
	Readers int       `json:"readers"`
	PerRdr  int       `json:"queries_per_reader"`
	Pause   *c12Pause `json:"pause,omitempty"`
	QSeed   int64     `json:"qseed"`
}

func init() {
	core.Register(&core.Monitor{
		ID:    "C12",
		Level: "exploration",
		Race:  true,
		Rule: "built with -race and the verif hooks. Suite 'race': one writer goroutine runs a model-generated script (Modify, Undo, Verify(remember), Ingest, Prune, Write+Read into itself; or a Read of another forest's bytes into a fresh forest) on a full or partial MapPollard (TotalRows 0/small/63) while 2..16 reader goroutines call " +
			"GetRoots, GetStump, GetNumLeaves, GetTreeRows, Prove, Verify(false), GetLeafPosition, GetLeafHashPositions, GetHash, GetMissingPositions and Write. Race-detector reports are de-duplicated by the pair of outermost MapPollard entry points; each pair is a violation. " +
			"Suite 'pause': the writer is suspended at one of the hook sites inside its critical section (Modify between remove and add, after the n-th single add, Undo between undoAdd and undoDeletion and before the root rewrite, ingest, Prune, Read after the header and in the node loop) or a serializing reader is suspended inside Write's node loop while a writer step is started; one query of each kind runs during the suspension. " +
			"Every call/return is stamped from one atomic logical clock at the client boundary; each history is checked with porcupine against a sequential model whose state is the writer-step index and in which a query is legal iff its output is what the reference model predicts for that state; a query that saw a half-applied step matches no state. " +
			"Also refuted by a panic in any goroutine and by goroutines that do not finish after the release (deadlock). An evaluation = one recorded operation. Non-trivial = a query whose interval overlapped a writer step; distinct = distinct (scenario kind, pause site, step kind, query kind, returned during the suspension or blocked).",
		Assumptions: []string{"the reference model and the shadow remembered-set are correct (C01, C02, C09, C10 check the sequential behaviour)", "String()/AllSubTreesToString() are debug printers, not queries of the statement, and are not called",
			"GetHash for positions above the forest top is not judged (recorded finding D8)", "a checker timeout (porcupine Unknown) is inconclusive, not a violation"},
		MinDistinct: 20,
		MinCounters: map[string]int64{"queries_overlapping_a_writer_step": 50, "pause_sites_reached": 10, "histories_checked": 20},
		Plan: func(tier string) []core.Suite {
			if tier == "thorough" {
				return []core.Suite{{Name: "race", N: 2000, CaseTimeout: 600}, {Name: "pause", N: 20000, CaseTimeout: 600}}
			}
			return []core.Suite{{Name: "race", N: 32, CaseTimeout: 600}, {Name: "pause", N: 360, CaseTimeout: 600}}
		},
		Run: func(c *core.Ctx) {
			s := c12Gen(c)
			c12Run(c, s)
		},
		Replay: func(c *core.Ctx, raw json.RawMessage) {
			var s c12Scenario
			if err := json.Unmarshal(raw, &s); err != nil {
				c.Inconclusive("bad scenario")
				return
			}
			// schedules differ from run to run: repeat
			for i := 0; i < 5 && c.CaseViolations() == 0; i++ {
				c12Run(c, s)
			}
		},
	})
}

var c12Sites = map[string][]string{
	"modify":          {"mappollard.Modify:between-remove-and-add", "mappollard.add:after-single-add"},
	"undo":            {"mappollard.Undo:between-undoAdd-and-undoDeletion", "mappollard.Undo:before-root-rewrite"},
	"verify-remember": {"mappollard.ingest:between-proof-and-intermediates"},
	"verify":          {"mappollard.ingest:between-proof-and-intermediates"},
	"ingest":          {"mappollard.ingest:between-proof-and-intermediates"},
	"prune":           {"mappollard.Prune:after-uncache"},
	"reread":          {"mappollard.Read:after-header", "mappollard.Read:in-node-loop"},
	"badreread":       {"mappollard.Read:after-header", "mappollard.Read:in-node-loop"},
	"restore":         {"mappollard.Read:after-header", "mappollard.Read:in-node-loop"},
}

const c12WriteSite = "mappollard.Write:in-node-loop"

// c12VerifySite suspends a concurrent Verify(remember=true) caller inside the
// verification phase (it is the row-advance hook of calculateHashes); a writer
// step is started during the suspension and must wait until the verifier has
// also finished remembering.
const c12VerifySite = "calculateHashes:row-advance"

var c12AllSites = []string{"mappollard.Modify:between-remove-and-add", "mappollard.add:after-single-add", "mappollard.Undo:between-undoAdd-and-undoDeletion",
	"mappollard.Undo:before-root-rewrite", "mappollard.ingest:between-proof-and-intermediates", "mappollard.Prune:after-uncache",
	"mappollard.Read:after-header", "mappollard.Read:in-node-loop", c12WriteSite, c12VerifySite}

func siteFits(site, kind string) bool {
	for _, x := range c12Sites[kind] {
		if x == site {
			return true
		}
	}
	return false
}

func c12Gen(c *core.Ctx) c12Scenario {
	r := c.Rng
	var cfg InstCfg
	switch r.Intn(6) {
	case 0, 1:
		cfg = InstCfg{"mapfull", 0}
	case 2:
		cfg = InstCfg{"mapfull", 63}
	case 3:
		cfg = InstCfg{"mapfull", uint8(1 + r.Intn(6))}
	case 4:
		cfg = InstCfg{"mappartial", 0}
	default:
		cfg = InstCfg{"mappartial", []uint8{2, 63}[r.Intn(2)]}
	}
	tag := uint64(c.Seed)<<32 | uint64(c.Index) | 1<<58
	site := ""
	if c.Suite == "pause" {
		site = c12AllSites[r.Intn(len(c12AllSites))]
		if site == "mappollard.Prune:after-uncache" && cfg.Kind == "mapfull" {
			cfg = InstCfg{"mappartial", []uint8{0, 2, 63}[r.Intn(3)]} // Prune is a no-op on a full forest
		}
		if site == c12VerifySite && cfg.Kind != "mapfull" {
			cfg = InstCfg{"mapfull", []uint8{0, 3, 63}[r.Intn(3)]} // remembering is observationally neutral only on a full forest
		}
	}
	prof := gen.Tiny
	prof.RememberMode = 1
	if cfg.Kind == "mapfull" {
		prof.RememberMode = 0
	}
	if site == "mappollard.Prune:after-uncache" {
		prof.RememberMode = 2
	}
	rounds := 1 + r.Intn(2)
	fs := genForestScenario(r, tag, nil, fGenOpts{Profile: prof, Rounds: rounds, Undo: true, PartialOps: true, ForceEmptyRootOverwrite: r.Intn(3) == 0})
	s := c12Scenario{Cfg: cfg, Tag: tag, Ops: fs.Ops, QSeed: r.Int63()}
	// sprinkle Write+Read-into-self steps
	var ops []fOp
	for _, op := range s.Ops {
		ops = append(ops, op)
		if r.Intn(6) == 0 {
			ops = append(ops, fOp{Kind: "reread"})
		}
		if r.Intn(7) == 0 {
			ops = append(ops, fOp{Kind: "badreread", K: r.Intn(1 << 20)})
		}
	}
	s.Ops = ops
	if r.Intn(8) == 0 {
		s.Restore = true
	}
	if c.Suite == "race" {
		s.Readers = []int{2, 4, 8, 16}[r.Intn(4)]
		s.PerRdr = 640 / s.Readers // short histories: linearizability checking cost climbs steeply with size
		if s.PerRdr > 120 {
			s.PerRdr = 120
		}
		return s
	}
	s.Readers = 0
	// pause scenario: the step and site are drawn after the plan is known
	s.Pause = &c12Pause{Step: -1, Nth: 1, Site: site}
	if strings.HasPrefix(s.Pause.Site, "mappollard.Read:") && r.Intn(2) == 0 {
		s.Restore = true
	}
	return s
}

// ---------------------------------------------------------------------------
// plan: reference states and writer steps

type c12Ref struct {
	M     *rm.Model
	F     *rm.Forest
	Rem   map[Hash]bool // remembered live leaves (partial); nil = all live leaves (full)
	Live  map[Hash]bool
	Stump u.Stump
	rows  atomic.Int32 // TotalRows observed by the writer in this state, -1 = not observed
}

func (r *c12Ref) tracked(h Hash) bool {
	if !r.Live[h] {
		return false
	}
	if r.Rem == nil {
		return true
	}
	return r.Rem[h]
}

type c12Step struct {
	Kind string
	Adds int
	Do   func(mp *u.MapPollard) error
}

type c12Plan struct {
	refs  []*c12Ref
	steps []c12Step // steps[i] leads from refs[i] to refs[i+1]
	src   []c12Step // restore mode: steps that build the source forest
}

func newRef(m *rm.Model, rem map[Hash]bool, partial bool) *c12Ref {
	r := &c12Ref{M: m.Clone()}
	r.F = r.M.Forest()
	r.Live = map[Hash]bool{}
	for _, s := range r.M.Live() {
		r.Live[r.M.Leaves[s]] = true
	}
	if partial {
		r.Rem = map[Hash]bool{}
		for h := range rem {
			if r.Live[h] {
				r.Rem[h] = true
			}
		}
	}
	r.Stump = u.Stump{Roots: cloneHashes(r.F.Roots), NumLeaves: r.F.N}
	r.rows.Store(-1)
	return r
}

func c12Build(s c12Scenario) *c12Plan {
	partial := s.Cfg.Kind == "mappartial"
	w := NewWorld(s.Tag, nil)
	rem := map[Hash]bool{}
	p := &c12Plan{}
	p.refs = append(p.refs, newRef(w.M, rem, partial))
	push := func(st c12Step) {
		p.steps = append(p.steps, st)
		p.refs = append(p.refs, newRef(w.M, rem, partial))
	}
	var recs []*BlockRec
	liveHashes := func(slots []int) []Hash {
		var out []Hash
		for _, sl := range slots {
			if sl < len(w.M.Leaves) && w.M.Alive[sl] {
				out = append(out, w.M.Leaves[sl])
			}
		}
		return out
	}
	for _, op := range s.Ops {
		switch op.Kind {
		case "block":
			rec := w.PrepareBlock(*op.Block)
			if partial && len(rec.DelHashes) > 0 {
				for _, h := range rec.DelHashes {
					rem[h] = true
				}
				push(c12Step{Kind: "verify-remember", Do: func(mp *u.MapPollard) error {
					return mp.Verify(cloneHashes(rec.DelHashes), cloneProof(rec.Proof), true)
				}})
			}
			w.CommitModel(rec)
			for _, h := range rec.DelHashes {
				delete(rem, h)
			}
			for _, l := range rec.Adds {
				if l.Remember {
					rem[l.Hash] = true
				}
			}
			recs = append(recs, rec)
			push(c12Step{Kind: "modify", Adds: len(rec.Adds), Do: func(mp *u.MapPollard) error {
				return mp.Modify(append([]u.Leaf(nil), rec.Adds...), cloneHashes(rec.DelHashes), cloneProof(rec.Proof))
			}})
		case "undo":
			for i := 0; i < op.K && len(recs) > 0; i++ {
				rec := recs[len(recs)-1]
				recs = recs[:len(recs)-1]
				w.M = rec.Before.Clone()
				w.Recs = w.Recs[:len(w.Recs)-1]
				for _, h := range rec.AddHashes {
					delete(rem, h)
				}
				for _, h := range rec.DelHashes {
					rem[h] = true
				}
				push(c12Step{Kind: "undo", Do: func(mp *u.MapPollard) error {
					return mp.Undo(uint64(len(rec.Adds)), cloneProof(rec.Proof), cloneHashes(rec.DelHashes), cloneHashes(rec.PrevRoots))
				}})
			}
		case "verify", "ingest":
			hashes := liveHashes(op.Slots)
			if len(hashes) == 0 {
				continue
			}
			pr, _ := w.M.Forest().ProofForHashes(hashes)
			for _, h := range hashes {
				rem[h] = true
			}
			if op.Kind == "verify" {
				push(c12Step{Kind: "verify", Do: func(mp *u.MapPollard) error { return mp.Verify(cloneHashes(hashes), cloneProof(pr), true) }})
			} else {
				push(c12Step{Kind: "ingest", Do: func(mp *u.MapPollard) error { return mp.Ingest(cloneHashes(hashes), cloneProof(pr)) }})
			}
		case "prune":
			hashes := liveHashes(op.Slots)
			if len(hashes) == 0 {
				continue
			}
			for _, h := range hashes {
				delete(rem, h)
			}
			push(c12Step{Kind: "prune", Do: func(mp *u.MapPollard) error { return mp.Prune(cloneHashes(hashes)) }})
		case "badreread":
			// a Read that fails: the forest's own bytes, cut short.  Everything the cut stream
			// holds is already in the forest, so no observation may change.
			cut := op.K
			push(c12Step{Kind: "badreread", Do: func(mp *u.MapPollard) error {
				var buf bytes.Buffer
				if _, err := mp.Write(&buf); err != nil {
					return err
				}
				b := buf.Bytes()
				if len(b) < 2 {
					return nil
				}
				if _, err := mp.Read(bytes.NewReader(b[:1+cut%(len(b)-1)])); err == nil {
					return fmt.Errorf("Read of a stream cut at %d of %d bytes returned nil", 1+cut%(len(b)-1), len(b))
				}
				return nil
			}})
		case "reread":
			push(c12Step{Kind: "reread", Do: func(mp *u.MapPollard) error {
				var buf bytes.Buffer
				if _, err := mp.Write(&buf); err != nil {
					return err
				}
				_, err := mp.Read(&buf)
				return err
			}})
		}
	}
	if s.Restore {
		// the monitored forest starts empty and reads the final state
		p.src = p.steps
		first, last := p.refs[0], p.refs[len(p.refs)-1]
		p.refs = []*c12Ref{first, last}
		p.steps = []c12Step{{Kind: "restore"}}
	}
	return p
}

func c12NewInst(cfg InstCfg) *u.MapPollard {
	m := u.NewMapPollard(cfg.Kind == "mapfull")
	m.TotalRows = cfg.Rows
	return &m
}

// ---------------------------------------------------------------------------
// queries

var c12Kinds = []string{"roots", "stump", "numleaves", "treerows", "prove", "verify", "leafpos", "leafposs", "gethash", "missing", "write", "verifypartial"}

type c12Query struct {
	Kind    string
	J       int // state the arguments were drawn from
	Hashes  []Hash
	Targets []uint64
	Proof   u.Proof
	Pos     uint64
	// Shared: the argument slices are handed to the library as they are (no private copy) and
	// the same backing arrays are used by other readers at the same time - arguments are
	// read-only for the library, so callers may share them (added after seeded change C12i)
	Shared bool `json:"-"`
}

func (q *c12Query) hs() []Hash {
	if q.Shared {
		return q.Hashes
	}
	return cloneHashes(q.Hashes)
}

func (q *c12Query) ts() []uint64 {
	if q.Shared {
		return q.Targets
	}
	return cloneU64(q.Targets)
}

func (q *c12Query) String() string {
	switch q.Kind {
	case "verify-remember", "verifypartial":
		return fmt.Sprintf("%s(%s, %s)", q.Kind, hashesStr(q.Hashes), proofStr(q.Proof))
	case "prove", "leafpos", "leafposs":
		if len(q.Hashes) > 12 {
			return fmt.Sprintf("%s(%d hashes: %s ...)", q.Kind, len(q.Hashes), hashesStr(q.Hashes[:6]))
		}
		return fmt.Sprintf("%s(%s)", q.Kind, hashesStr(q.Hashes))
	case "verify":
		return fmt.Sprintf("verify(%s, %s)", hashesStr(q.Hashes), proofStr(q.Proof))
	case "gethash":
		return fmt.Sprintf("gethash(%d)", q.Pos)
	case "missing":
		return fmt.Sprintf("missing(%v)", q.Targets)
	}
	return q.Kind + "()"
}

func digestHashes(hs_ []Hash) string {
	var sb strings.Builder
	for _, h := range hs_ {
		sb.WriteString(hx(h)[:16])
		sb.WriteByte(',')
	}
	return sb.String()
}

func digestProof(p u.Proof) string { return fmt.Sprintf("%v|%s", p.Targets, digestHashes(p.Proof)) }

func pickTracked(rng *rand.Rand, r *c12Ref, n int) []Hash {
	var cand []Hash
	for _, s := range r.M.Live() {
		h := r.M.Leaves[s]
		if r.tracked(h) {
			cand = append(cand, h)
		}
	}
	if len(cand) == 0 {
		return nil
	}
	rng.Shuffle(len(cand), func(i, j int) { cand[i], cand[j] = cand[j], cand[i] })
	if n > len(cand) {
		n = len(cand)
	}
	return cand[:n]
}

func pickLive(rng *rand.Rand, r *c12Ref, n int) []Hash {
	live := r.M.Live()
	if len(live) == 0 {
		return nil
	}
	rng.Shuffle(len(live), func(i, j int) { live[i], live[j] = live[j], live[i] })
	if n > len(live) {
		n = len(live)
	}
	var out []Hash
	for _, s := range live[:n] {
		out = append(out, r.M.Leaves[s])
	}
	return out
}

// c12MkQuery draws a query of the given kind with arguments from state j.
func c12MkQuery(rng *rand.Rand, p *c12Plan, kind string, j int) *c12Query {
	r := p.refs[j]
	q := &c12Query{Kind: kind, J: j}
	switch kind {
	case "prove":
		n := 1 + rng.Intn(4)
		if rng.Intn(3) == 0 {
			n = 1 << 20 // every tracked leaf: a long request
		}
		q.Hashes = pickTracked(rng, r, n)
		if q.Hashes == nil {
			q.Kind = "roots"
		}
	case "verifypartial":
		// VerifyPartialProof completed with the true hashes of every canonical proof position
		// the forest may lack; on a full forest (which lacks none) it also remembers
		q.Hashes = pickLive(rng, r, 1+rng.Intn(3))
		if q.Hashes == nil {
			q.Kind = "roots"
			break
		}
		q.Proof, _ = r.F.ProofForHashes(q.Hashes)
	case "verify", "verify-remember":
		q.Hashes = pickLive(rng, r, 1+rng.Intn(4))
		if q.Hashes == nil {
			q.Kind = "stump"
			break
		}
		q.Proof, _ = r.F.ProofForHashes(q.Hashes)
	case "leafpos", "leafposs":
		n := 1
		if kind == "leafposs" {
			n = 1 + rng.Intn(3)
		}
		for i := 0; i < n; i++ {
			switch {
			case len(r.M.Leaves) > 0 && rng.Intn(4) > 0:
				q.Hashes = append(q.Hashes, r.M.Leaves[rng.Intn(len(r.M.Leaves))]) // live or dead
			default:
				q.Hashes = append(q.Hashes, rm.FreshHash(0xC12, uint64(rng.Intn(1000))))
			}
		}
		if kind == "leafposs" && rng.Intn(2) == 0 {
			// a long request (every leaf ever added, in random order, padded with unknown hashes to
			// 150-260 entries): an implementation that answers it piecewise can straddle a block
			q.Hashes = append([]Hash(nil), r.M.Leaves...)
			for len(q.Hashes) < 150+rng.Intn(110) {
				q.Hashes = append(q.Hashes, rm.FreshHash(0xC12, uint64(rng.Intn(1000))))
			}
			rng.Shuffle(len(q.Hashes), func(i, j int) { q.Hashes[i], q.Hashes[j] = q.Hashes[j], q.Hashes[i] })
		}
	case "gethash":
		top := uint64(1)<<(r.F.H+1) - 2
		if len(r.F.Nodes) > 0 && rng.Intn(3) > 0 {
			i := rng.Intn(len(r.F.Nodes))
			for pos := range r.F.Nodes {
				if i == 0 {
					q.Pos = pos
					break
				}
				i--
			}
		} else {
			q.Pos = uint64(rng.Int63n(int64(top) + 1))
		}
	case "missing":
		hs_ := pickLive(rng, r, 1+rng.Intn(3))
		if hs_ == nil {
			q.Kind = "numleaves"
			break
		}
		for _, h := range hs_ {
			q.Targets = append(q.Targets, r.F.LeafPos[h])
		}
	}
	return q
}

// c12Exec performs the query against the forest and digests the result.
func c12Exec(mp *u.MapPollard, cfg InstCfg, q *c12Query) string {
	switch q.Kind {
	case "roots":
		return digestHashes(mp.GetRoots())
	case "stump":
		s := mp.GetStump()
		return fmt.Sprintf("%d|%s", s.NumLeaves, digestHashes(s.Roots))
	case "numleaves":
		return fmt.Sprint(mp.GetNumLeaves())
	case "treerows":
		return fmt.Sprint(mp.GetTreeRows())
	case "prove":
		pr, err := mp.Prove(q.hs())
		if err != nil {
			return "err"
		}
		return "ok:" + digestProof(pr)
	case "verify":
		if err := mp.Verify(cloneHashes(q.Hashes), cloneProof(q.Proof), false); err != nil {
			return "err"
		}
		return "ok"
	case "verify-remember":
		if err := mp.Verify(cloneHashes(q.Hashes), cloneProof(q.Proof), true); err != nil {
			return "err"
		}
		return "ok"
	case "verifypartial":
		// a full forest stores every proof position, so no proof hashes are supplied
		// (and remembering is neutral); a partial one is asked without remembering
		// and is given the whole canonical proof only if it reports all of it missing
		full := cfg.Kind == "mapfull"
		var ph []Hash
		if !full {
			miss := mp.GetMissingPositions(cloneU64(q.Proof.Targets))
			if len(miss) != len(q.Proof.Proof) {
				return "skipped" // some positions are stored: which hashes to supply depends on the state
			}
			ph = cloneHashes(q.Proof.Proof)
		}
		if err := mp.VerifyPartialProof(cloneU64(q.Proof.Targets), cloneHashes(q.Hashes), ph, full); err != nil {
			return "err"
		}
		return "ok"
	case "leafpos":
		pos, ok := mp.GetLeafPosition(q.Hashes[0])
		if !ok {
			return "nf"
		}
		return fmt.Sprint(pos)
	case "leafposs":
		return fmt.Sprint(mp.GetLeafHashPositions(q.hs()))
	case "gethash":
		return hx(mp.GetHash(q.Pos))[:16]
	case "missing":
		return fmt.Sprint(mp.GetMissingPositions(q.ts()))
	case "write":
		var buf bytes.Buffer
		n, err := mp.Write(&buf)
		if err != nil {
			return "write-error"
		}
		if n != buf.Len() {
			return fmt.Sprintf("write-count-%d-of-%d", n, buf.Len())
		}
		m2 := u.NewMapPollard(cfg.Kind == "mapfull")
		if _, err := m2.Read(bytes.NewReader(buf.Bytes())); err != nil {
			return "unreadable:" + err.Error()
		}
		return fmt.Sprintf("%d|%s|%d", m2.NumLeaves, digestHashes(m2.GetRoots()), m2.CachedLeaves.Length())
	}
	return "?"
}

// c12Legal: is out a correct answer to q in reference state k?
func c12Legal(p *c12Plan, cfg InstCfg, k int, q *c12Query, out string) bool {
	r := p.refs[k]
	full := cfg.Kind == "mapfull"
	switch q.Kind {
	case "roots":
		return out == digestHashes(r.F.Roots)
	case "stump":
		return out == fmt.Sprintf("%d|%s", r.F.N, digestHashes(r.F.Roots))
	case "numleaves":
		return out == fmt.Sprint(r.F.N)
	case "treerows":
		v := r.rows.Load()
		return v >= 0 && out == fmt.Sprint(v)
	case "prove":
		allLive, allTracked := true, true
		for _, h := range q.Hashes {
			if !r.Live[h] {
				allLive = false
			}
			if !r.tracked(h) {
				allTracked = false
			}
		}
		if !allLive {
			return out == "err"
		}
		pr, _ := r.F.ProofForHashes(q.Hashes)
		want := "ok:" + digestProof(pr)
		if allTracked {
			return out == want
		}
		return out == "err" || out == want // partial forest, a requested leaf is not remembered
	case "verifypartial":
		if out == "skipped" {
			return true
		}
		for _, t := range q.Proof.Targets {
			if nd := r.F.Nodes[t]; nd == nil || nd.Leaf < 0 {
				return true // targets drawn from another state hold no leaf here: not judged
			}
		}
		if ok, _ := claimTrue(r.F, claim{Hashes: q.Hashes, Targets: q.Proof.Targets}); ok {
			if full {
				return out == "ok"
			}
			return true // partial: acceptance also depends on which hashes were supplied for this state
		}
		return out == "err"
	case "verify", "verify-remember":
		for _, t := range q.Proof.Targets {
			if t > uint64(1)<<(r.F.H+1)-2 {
				// the proof was drawn from a taller state; a map forest with spare
				// allocated rows reads such a target in its own geometry: not judged (D19)
				return true
			}
		}
		_, err := u.Verify(r.Stump, cloneHashes(q.Hashes), cloneProof(q.Proof))
		if err != nil {
			return out == "err"
		}
		return out == "ok"
	case "leafpos":
		if r.tracked(q.Hashes[0]) {
			return out == fmt.Sprint(r.F.LeafPos[q.Hashes[0]])
		}
		return out == "nf"
	case "leafposs":
		want := make([]uint64, len(q.Hashes))
		for i, h := range q.Hashes {
			if r.tracked(h) {
				want[i] = r.F.LeafPos[h]
			}
		}
		return out == fmt.Sprint(want)
	case "gethash":
		top := uint64(1)<<(r.F.H+1) - 2
		if q.Pos > top {
			return true // above the forest top: not judged (D8)
		}
		nd := r.F.Nodes[q.Pos]
		zero := hx(rm.Zero)[:16]
		if nd == nil {
			return out == zero
		}
		if full {
			return out == hx(nd.Hash)[:16]
		}
		return out == zero || out == hx(nd.Hash)[:16]
	case "missing":
		for _, t := range q.Targets {
			if nd := r.F.Nodes[t]; nd == nil || nd.Leaf < 0 {
				// the targets were drawn from another state; here one of them holds no
				// leaf (no node, or an internal node, i.e. nested targets): not judged
				return true
			}
		}
		pp, _ := r.F.CanonProofPos(q.Targets)
		if full {
			return out == "[]"
		}
		// partial: a subset (in order) of the canonical proof positions
		var got []uint64
		s := strings.Trim(out, "[]")
		for _, f := range strings.Fields(s) {
			var v uint64
			fmt.Sscan(f, &v)
			got = append(got, v)
		}
		i := 0
		for _, g := range got {
			for i < len(pp) && pp[i] != g {
				i++
			}
			if i == len(pp) {
				return false
			}
			i++
		}
		return true
	case "write":
		n := 0
		for h := range r.Live {
			if r.tracked(h) {
				n++
			}
		}
		return out == fmt.Sprintf("%d|%s|%d", r.F.N, digestHashes(r.F.Roots), n)
	}
	return false
}

// ---------------------------------------------------------------------------
// history recording

type c12Ev struct {
	Client int
	Step   int // >0: writer step leading to state Step
	Q      *c12Query
	Call   int64
	Ret    int64
	Out    string
	Err    string
}

type c12Run_ struct {
	s      c12Scenario
	p      *c12Plan
	mp     *u.MapPollard
	clock  atomic.Int64
	prog   atomic.Int64 // number of completed writer steps
	mu     sync.Mutex
	evs    []c12Ev
	panics []string
	// requests of the free-running suite whose argument slices were in use by another reader too
	sharedCalls int64
}

func (r *c12Run_) add(e c12Ev) {
	r.mu.Lock()
	r.evs = append(r.evs, e)
	r.mu.Unlock()
}

func (r *c12Run_) guard(who string) {
	if x := recover(); x != nil {
		st := debug.Stack()
		r.mu.Lock()
		r.panics = append(r.panics, fmt.Sprintf("%s: panic: %v\n%s", who, x, trimLines(string(st), 30)))
		r.mu.Unlock()
	}
}

// doStep runs writer step i (1-based: leads to state i).
func (r *c12Run_) doStep(i int, bytesForRestore []byte) {
	st := r.p.steps[i-1]
	e := c12Ev{Client: 0, Step: i, Call: r.clock.Add(1)}
	var err error
	func() {
		defer func() {
			if x := recover(); x != nil {
				err = fmt.Errorf("panic: %v\n%s", x, trimLines(string(debug.Stack()), 30))
				r.mu.Lock()
				r.panics = append(r.panics, fmt.Sprintf("writer step %d (%s): %v", i, st.Kind, err))
				r.mu.Unlock()
			}
		}()
		if st.Kind == "restore" {
			_, err = r.mp.Read(bytes.NewReader(bytesForRestore))
		} else {
			err = st.Do(r.mp)
		}
	}()
	// the writer is the only goroutine that changes TotalRows: reading the field here is race-free
	r.p.refs[i].rows.Store(int32(r.mp.TotalRows))
	r.prog.Store(int64(i))
	e.Ret = r.clock.Add(1)
	if err != nil {
		e.Err = err.Error()
	}
	r.add(e)
}

func (r *c12Run_) doQuery(client int, q *c12Query) {
	defer r.guard("query " + q.String())
	e := c12Ev{Client: client, Q: q, Call: r.clock.Add(1)}
	e.Out = c12Exec(r.mp, r.s.Cfg, q)
	e.Ret = r.clock.Add(1)
	r.add(e)
}

func clampState(j, n int) int {
	if j < 0 {
		return 0
	}
	if j >= n {
		return n - 1
	}
	return j
}

// restoreBytes builds the source forest of a restore scenario and serializes it.
func (r *c12Run_) restoreBytes() ([]byte, error) {
	src := c12NewInst(r.s.Cfg)
	for i, st := range r.p.src {
		if err := st.Do(src); err != nil {
			return nil, fmt.Errorf("building the source forest, step %d (%s): %v", i+1, st.Kind, err)
		}
	}
	var buf bytes.Buffer
	if _, err := src.Write(&buf); err != nil {
		return nil, err
	}
	return buf.Bytes(), nil
}

// ---------------------------------------------------------------------------

func c12Run(c *core.Ctx, s c12Scenario) {
	p := c12Build(s)
	if len(p.steps) == 0 {
		return
	}
	r := &c12Run_{s: s, p: p, mp: c12NewInst(s.Cfg)}
	p.refs[0].rows.Store(int32(s.Cfg.Rows))
	var rb []byte
	if s.Restore {
		var err error
		rb, err = r.restoreBytes()
		if err != nil {
			c.SetScenario(s)
			c.Violate("writer", "setup:error-on-honest-input", "", err.Error())
			return
		}
	}
	kindName := "script"
	if s.Restore {
		kindName = "restore"
	}
	var pauseInfo *pauseResult
	if s.Pause == nil {
		pauseInfo = c12Free(r, rb)
		c.Count("requests_sharing_their_argument_slices_with_another_reader", int(r.sharedCalls))
	} else {
		ps := *s.Pause
		if ps.Step < 0 {
			// draw step and site now that the plan is known (deterministic in QSeed)
			rng := rand.New(rand.NewSource(s.QSeed))
			var cand []int
			for i, st := range p.steps {
				switch {
				case ps.Site == c12WriteSite:
					if len(p.refs[i].F.Nodes) > 0 {
						cand = append(cand, i+1)
					}
				case ps.Site == c12VerifySite:
					if (st.Kind == "modify" || st.Kind == "undo") && len(p.refs[i].Live) >= 2 && p.refs[i].F.N >= 2 {
						cand = append(cand, i+1)
					}
				case ps.Site == "mappollard.add:after-single-add":
					if st.Kind == "modify" && st.Adds > 0 {
						cand = append(cand, i+1)
					}
				case siteFits(ps.Site, st.Kind):
					cand = append(cand, i+1)
				}
			}
			if len(cand) > 0 {
				ps.Step = cand[rng.Intn(len(cand))]
			} else {
				// the script has no step that can reach the drawn site: take any step and one of its sites
				ps.Step = 1 + rng.Intn(len(p.steps))
				sites := c12Sites[p.steps[ps.Step-1].Kind]
				ps.Site = sites[rng.Intn(len(sites))]
			}
			if ps.Site == "mappollard.add:after-single-add" && p.steps[ps.Step-1].Adds > 0 {
				ps.Nth = 1 + rng.Intn(p.steps[ps.Step-1].Adds)
			}
			s.Pause = &ps
			r.s = s
		}
		pauseInfo = c12Paused(r, rb, ps)
	}
	c.SetScenario(s)

	// --- verdicts ---
	for _, pn := range r.panics {
		c.Violate("goroutine", "panic", core.PanicTrigger([]byte(pn)), pn)
	}
	if pauseInfo != nil && pauseInfo.deadlock != "" {
		switch {
		case pauseInfo.spinning != "":
			c.Violate("join", "call-does-not-return", pauseInfo.spinning, pauseInfo.deadlock)
			c.AbandonProcess() // the spinning goroutines stay; this worker is done
		case pauseInfo.deadlockInLib:
			c.Violate("join", "deadlock", pauseInfo.site, pauseInfo.deadlock)
			c.AbandonProcess()
		default:
			c.Inconclusive("goroutines did not finish within the watchdog, neither parked in the library's lock nor executing library code: " + pauseInfo.site)
		}
		return
	}
	if pauseInfo != nil && s.Pause == nil {
		pauseInfo = nil // free-running mode finished normally
	}
	sort.Slice(r.evs, func(a, b int) bool { return r.evs[a].Call < r.evs[b].Call })
	var steps []c12Ev
	for _, e := range r.evs {
		if e.Step > 0 {
			steps = append(steps, e)
			if e.Err != "" {
				c.Violate("writer."+p.steps[e.Step-1].Kind, "error-on-honest-input", "", fmt.Sprintf("writer step %d (%s) failed: %s", e.Step, p.steps[e.Step-1].Kind, e.Err))
			}
		}
	}
	if c.CaseViolations() > 0 {
		return
	}
	c.Eval(len(r.evs))
	c.Count("operations_recorded", len(r.evs))
	c.Count("writer_steps", len(steps))
	for _, e := range steps {
		c.Count("writer_steps_"+p.steps[e.Step-1].Kind, 1)
	}
	// interval check (explains a verdict, gives the coverage counters)
	type bad struct {
		e      c12Ev
		lo, hi int
	}
	var bads []bad
	for _, e := range r.evs {
		if e.Q == nil {
			continue
		}
		lo, hi := 0, 0
		overl := false
		for _, st := range steps {
			if st.Ret < e.Call {
				lo = st.Step
			}
			if st.Call < e.Ret {
				hi = st.Step
			}
			if st.Call < e.Ret && st.Ret > e.Call {
				overl = true
			}
		}
		if hi < lo {
			hi = lo
		}
		c.Count("queries", 1)
		c.Count("queries_"+e.Q.Kind, 1)
		if overl {
			c.Count("queries_overlapping_a_writer_step", 1)
		}
		ok := false
		for k := lo; k <= hi && !ok; k++ {
			ok = c12Legal(p, s.Cfg, k, e.Q, e.Out)
		}
		if !ok {
			bads = append(bads, bad{e, lo, hi})
		}
		if pauseInfo != nil && pauseInfo.reached {
			during := e.Ret < pauseInfo.releaseAt && e.Call > pauseInfo.pausedAt
			blocked := e.Call > pauseInfo.pausedAt && e.Call < pauseInfo.releaseAt && e.Ret > pauseInfo.releaseAt
			if during {
				c.Count("queries_returned_during_suspension", 1)
				c.Count("returned_during_suspension@"+pauseInfo.site, 1)
			}
			if blocked {
				c.Count("queries_blocked_until_release", 1)
				c.Count("blocked_until_release@"+pauseInfo.site, 1)
			}
			if during || blocked {
				c.Distinct(core.FP(kindName, pauseInfo.site, pauseInfo.stepKind, e.Q.Kind, during))
			}
		} else if overl {
			c.Distinct(core.FP(kindName, "free", e.Q.Kind, s.Cfg.Kind))
		}
	}
	if pauseInfo != nil {
		if pauseInfo.reached {
			c.Count("pause_sites_reached", 1)
			c.Count("reached@"+pauseInfo.site, 1)
		} else {
			c.Count("pause_site_not_reached", 1)
		}
	}
	// porcupine: the deciding check
	res, info := c12Porcupine(p, s.Cfg, r.evs)
	_ = info
	c.Count("histories_checked", 1)
	switch res {
	case porcupine.Ok:
		c.Count("porcupine_ok", 1)
		if len(bads) > 0 {
			c.Inconclusive(fmt.Sprintf("interval check flags %d queries but porcupine accepts the history", len(bads)))
		}
	case porcupine.Unknown:
		c.Count("porcupine_unknown", 1)
		c.Inconclusive("porcupine timed out")
	case porcupine.Illegal:
		c.Count("porcupine_illegal", 1)
		site := "free-running"
		if pauseInfo != nil && pauseInfo.reached {
			site = pauseInfo.site
		}
		if len(bads) == 0 {
			c.Violate("history", "not-linearizable", site, "porcupine rejects the history although every query is individually legal for a state in its window")
			return
		}
		for _, b := range bads {
			var want []string
			for k := b.lo; k <= b.hi; k++ {
				want = append(want, fmt.Sprintf("state %d", k))
			}
			c.ViolateContinue("MapPollard."+queryMethod(b.e.Q.Kind), "half-applied-state-observed", site,
				fmt.Sprintf("%s on %s returned %q between logical times %d and %d; the writer steps current in that window lead to %s and the reference model predicts another answer for each of them (writer steps: %s)",
					b.e.Q, s.Cfg, b.e.Out, b.e.Call, b.e.Ret, strings.Join(want, ", "), stepsStr(p, steps)))
		}
	}
	if c.WantSample("history") && len(r.evs) > 3 {
		var lines []string
		for i, e := range r.evs {
			if i >= 14 {
				lines = append(lines, "...")
				break
			}
			if e.Step > 0 {
				lines = append(lines, fmt.Sprintf("[%d,%d] writer step %d %s", e.Call, e.Ret, e.Step, p.steps[e.Step-1].Kind))
			} else {
				lines = append(lines, fmt.Sprintf("[%d,%d] client %d %s -> %s", e.Call, e.Ret, e.Client, e.Q, e.Out))
			}
		}
		smp := map[string]any{"cfg": s.Cfg.String(), "kind": kindName, "history": lines}
		if pauseInfo != nil {
			smp["suspended_at"] = pauseInfo.site
			smp["reached"] = pauseInfo.reached
		}
		c.Sample("history", smp)
	}
}

func queryMethod(kind string) string {
	return map[string]string{"roots": "GetRoots", "stump": "GetStump", "numleaves": "GetNumLeaves", "treerows": "GetTreeRows", "prove": "Prove", "verify": "Verify",
		"verify-remember": "Verify(remember)", "verifypartial": "VerifyPartialProof", "leafpos": "GetLeafPosition", "leafposs": "GetLeafHashPositions", "gethash": "GetHash", "missing": "GetMissingPositions", "write": "Write"}[kind]
}

func stepsStr(p *c12Plan, steps []c12Ev) string {
	var sb strings.Builder
	for _, e := range steps {
		fmt.Fprintf(&sb, "%d:%s[%d,%d] ", e.Step, p.steps[e.Step-1].Kind, e.Call, e.Ret)
	}
	return sb.String()
}

type c12In struct {
	Step int
	Q    *c12Query
}

func c12Porcupine(p *c12Plan, cfg InstCfg, evs []c12Ev) (porcupine.CheckResult, porcupine.LinearizationInfo) {
	type key struct {
		k   int
		q   *c12Query
		out string
	}
	var mu sync.Mutex
	memo := map[key]bool{}
	model := porcupine.Model{
		Init: func() interface{} { return 0 },
		Step: func(state, input, output interface{}) (bool, interface{}) {
			k := state.(int)
			in := input.(c12In)
			if in.Q == nil {
				if in.Step == k+1 {
					return true, in.Step
				}
				return false, k
			}
			out := output.(string)
			mu.Lock()
			v, ok := memo[key{k, in.Q, out}]
			mu.Unlock()
			if !ok {
				v = c12Legal(p, cfg, k, in.Q, out)
				mu.Lock()
				memo[key{k, in.Q, out}] = v
				mu.Unlock()
			}
			return v, k
		},
		Equal: func(a, b interface{}) bool { return a.(int) == b.(int) },
	}
	ops := make([]porcupine.Operation, 0, len(evs))
	for _, e := range evs {
		ops = append(ops, porcupine.Operation{ClientId: e.Client, Input: c12In{Step: e.Step, Q: e.Q}, Call: e.Call, Output: e.Out, Return: e.Ret})
	}
	return porcupine.CheckOperationsVerbose(model, ops, 180*time.Second)
}

// ---------------------------------------------------------------------------
// free-running mode

func c12Free(r *c12Run_, rb []byte) *pauseResult {
	var wg sync.WaitGroup
	var done atomic.Bool
	var echo atomic.Pointer[c12Query] // the latest multi-item request of any reader
	var sharedCalls atomic.Int64
	defer func() { r.sharedCalls = sharedCalls.Load() }()
	n := len(r.p.refs)
	for i := 0; i < r.s.Readers; i++ {
		wg.Add(1)
		go func(id int) {
			defer wg.Done()
			defer r.guard(fmt.Sprintf("reader %d", id))
			rng := rand.New(rand.NewSource(r.s.QSeed + int64(id)*7919))
			for k := 0; k < r.s.PerRdr; k++ {
				if done.Load() && k > 10 {
					return
				}
				cur := int(r.prog.Load())
				j := clampState(cur-1+rng.Intn(3), n)
				kind := c12Kinds[rng.Intn(len(c12Kinds))]
				if kind == "write" && rng.Intn(3) > 0 {
					kind = "numleaves"
				}
				if r.s.Cfg.Kind == "mapfull" && rng.Intn(6) == 0 {
					kind = "verify-remember" // a second mutator; observationally neutral on a full forest
				}
				q := c12MkQuery(rng, r.p, kind, j)
				switch q.Kind {
				case "missing", "leafposs", "prove":
					// a third of these requests re-use the argument slices another reader is using
					q.Shared = true
					if e := echo.Load(); e != nil && e.Kind == q.Kind && rng.Intn(2) == 0 {
						qq := *e
						q = &qq
						sharedCalls.Add(1)
					} else {
						echo.Store(q)
					}
				}
				r.doQuery(id+1, q)
				if rng.Intn(4) == 0 {
					runtime.Gosched()
				}
			}
		}(i)
	}
	wg.Add(1)
	go func() {
		defer wg.Done()
		for i := 1; i <= len(r.p.steps); i++ {
			r.doStep(i, rb)
			runtime.Gosched()
		}
		done.Store(true)
	}()
	res := &pauseResult{site: "free-running"}
	joinWatchdog(&wg, res)
	if res.deadlock == "" {
		return nil
	}
	return res
}

// joinWatchdog waits for the goroutines of a run; after 60 s it records a
// goroutine dump and classifies it: parked in the library's RWMutex = deadlock;
// still executing library code = a call that does not return.
func joinWatchdog(wg *sync.WaitGroup, res *pauseResult) {
	joined := make(chan struct{})
	go func() { wg.Wait(); close(joined) }()
	select {
	case <-joined:
	case <-time.After(60 * time.Second):
		buf := make([]byte, 1<<20)
		k := runtime.Stack(buf, true)
		dump := string(buf[:k])
		res.deadlock = "goroutines still running after 60 s:\n" + trimLines(dump, 120)
		res.deadlockInLib = strings.Contains(dump, "sync.(*RWMutex)") && strings.Contains(dump, "github.com/utreexo/utreexo.(*MapPollard)")
		for _, g := range strings.Split(dump, "\n\n") {
			if (strings.Contains(g, "[running]") || strings.Contains(g, "[runnable]")) && strings.Contains(g, "github.com/utreexo/utreexo.") {
				res.spinning = core.PanicTrigger([]byte(g))
			}
		}
	}
}

// ---------------------------------------------------------------------------
// suspended-writer mode

type pauseResult struct {
	site          string
	stepKind      string
	reached       bool
	pausedAt      int64
	releaseAt     int64
	deadlock      string
	deadlockInLib bool
	spinning      string // innermost library frame of a goroutine that is still executing
}

func c12Paused(r *c12Run_, rb []byte, ps c12Pause) *pauseResult {
	res := &pauseResult{site: ps.Site, stepKind: r.p.steps[ps.Step-1].Kind}
	for i := 1; i < ps.Step; i++ {
		r.doStep(i, rb)
	}
	paused := make(chan struct{})
	release := make(chan struct{})
	var hits atomic.Int32
	hook := func(site string) {
		if site != ps.Site {
			return
		}
		if int(hits.Add(1)) == ps.Nth {
			close(paused)
			<-release
		}
	}
	u.VerifHook.Store(&hook)
	defer u.VerifHook.Store(nil)

	var wg sync.WaitGroup
	rng := rand.New(rand.NewSource(r.s.QSeed ^ 0x5eed))
	n := len(r.p.refs)
	stepDone := make(chan struct{})
	startStep := func() {
		wg.Add(1)
		go func() {
			defer wg.Done()
			r.doStep(ps.Step, rb)
			close(stepDone)
		}()
	}
	writeSite := ps.Site == c12WriteSite || ps.Site == c12VerifySite
	firstDone := make(chan struct{})
	if writeSite {
		// not the writer but a serializing reader (Write) or a concurrent
		// Verify(remember=true) caller is the one that gets suspended
		side := &c12Query{Kind: "write", J: ps.Step - 1}
		if ps.Site == c12VerifySite {
			side = c12MkQuery(rng, r.p, "verify-remember", ps.Step-1)
		}
		wg.Add(1)
		go func() {
			defer wg.Done()
			defer close(firstDone)
			r.doQuery(99, side)
		}()
	} else {
		startStep()
	}
	// wait for the suspension (or for the step to finish without reaching the site)
	reached := false
	if writeSite {
		select {
		case <-paused:
			reached = true
		case <-firstDone:
		}
		if !reached {
			// Write did not reach the site (no nodes): just run the step
			startStep()
		}
	} else {
		select {
		case <-paused:
			reached = true
		case <-stepDone:
		}
	}
	res.reached = reached
	if reached {
		res.pausedAt = r.clock.Add(1)
		if writeSite {
			startStep() // must block until the serializer is released
		}
		var qwg sync.WaitGroup
		var returned atomic.Int32
		nq := 0
		for ci, kind := range c12Kinds {
			if ps.Site == c12WriteSite && kind == "write" {
				continue
			}
			q := c12MkQuery(rng, r.p, kind, clampState(ps.Step-1+rng.Intn(2), n))
			nq++
			qwg.Add(1)
			wg.Add(1)
			go func(id int, q *c12Query) {
				defer wg.Done()
				defer qwg.Done()
				r.doQuery(id, q)
				returned.Add(1)
			}(ci+1, q)
		}
		// give the queries the chance to run; a correct forest keeps them parked
		for i := 0; i < 40 && int(returned.Load()) < nq; i++ {
			time.Sleep(250 * time.Microsecond)
			runtime.Gosched()
		}
		res.releaseAt = r.clock.Add(1)
	}
	close(release)
	// join under a watchdog
	joinWatchdog(&wg, res)
	if res.deadlock != "" {
		return res
	}
	// quiescent round: every query kind against the settled state
	cur := int(r.prog.Load())
	for ci, kind := range c12Kinds {
		r.doQuery(ci+1, c12MkQuery(rng, r.p, kind, clampState(cur, n)))
	}
	return res
}
