package mon

import (
	"encoding/json"
	"fmt"

	u "github.com/utreexo/utreexo"

	"verifharness/core"
	"verifharness/gen"
	rm "verifharness/refmodel"
)

// C11 — update data describes exactly what the block changed.

func c11Plan(tier string) histPlan {
	if tier == "thorough" {
		return histPlan{Enum: gen.EnumParams{MaxAdds: []int{6, 4, 3}}, Rand: 300000, Tall: 200}
	}
	return histPlan{Enum: gen.EnumParams{MaxAdds: []int{4, 3, 2}}, Rand: 12000, Tall: 8}
}

func init() {
	core.Register(&core.Monitor{
		ID:    "C11",
		Level: "exploration",
		Rule: "cases = block histories (enumerated small scope + seeded random, as C01) applied to a Stump with the reference model's proofs; " +
			"an evaluation = one field-by-field comparison of the UpdateData returned by Stump.Update with the reference update data " +
			"(PrevNumLeaves, ToDestroy in order, NewDel pos/hash sorted, NewAdd pos/hash sorted without duplicates). " +
			"A block is non-trivial if it deletes something or overwrites an empty root; distinct = distinct (pre-state alive pattern, deletion set, addition count).",
		Assumptions: []string{"SHA-512/256 collision freedom", "reference model correct"},
		MinDistinct: 50,
		Plan: func(tier string) []core.Suite {
			n := 6
			if tier == "thorough" {
				n = 60
			}
			return append(c11Plan(tier).suites(), core.Suite{Name: "big", N: n, CaseTimeout: 600})
		},
		Run: func(c *core.Ctx) {
			if c.Suite == "big" {
				// blocks of more than a thousand additions over emptied trees of a thousand leaves and
				// more (added after seeded change C11i, a cap on the simulated additions): the other
				// suites keep blocks and forests small
				tag := uint64(c.Seed)<<32 | uint64(c.Index) | 1<<49
				n0 := []int{2048, 1024, 3072, 1500, 4096, 2047}[c.Index%6]
				h := gen.History{Tag: tag, Blocks: []gen.Block{{Adds: n0}}}
				var dels []int
				switch c.Index % 3 {
				case 0: // everything
					for sl := 0; sl < n0; sl++ {
						dels = append(dels, sl)
					}
				case 1: // the first (largest) tree
					big := 1
					for big*2 <= n0 {
						big *= 2
					}
					for sl := 0; sl < big; sl++ {
						dels = append(dels, sl)
					}
				default: // everything but a few
					for sl := 0; sl < n0; sl++ {
						if c.Rng.Intn(200) > 0 {
							dels = append(dels, sl)
						}
					}
				}
				c.Rng.Shuffle(len(dels), func(i, j int) { dels[i], dels[j] = dels[j], dels[i] })
				h.Blocks = append(h.Blocks, gen.Block{Dels: dels, Adds: c.Rng.Intn(2)})
				h.Blocks = append(h.Blocks, gen.Block{Adds: 1025 + c.Rng.Intn(2000)})
				h.Blocks = append(h.Blocks, gen.Block{Adds: 1 + c.Rng.Intn(3)})
				c11Check(c, histScenario{History: h})
				return
			}
			mode := ""
			if c.Suite == "rand" {
				mode = map[int]string{4: "prefix", 5: "readd"}[c.Index%6]
			}
			c11Check(c, histScenario{History: c11Plan(c.Tier).history(c), LeafMode: mode})
		},
		Replay: func(c *core.Ctx, raw json.RawMessage) {
			s, err := parseHistScenario(raw)
			if err != nil {
				c.Inconclusive("bad scenario")
				return
			}
			c11Check(c, s)
		},
	})
}

func hpList(pos []uint64, hashes []Hash) []rm.HP {
	out := make([]rm.HP, 0, len(pos))
	for i := range pos {
		var h Hash
		if i < len(hashes) {
			h = hashes[i]
		}
		out = append(out, rm.HP{Pos: pos[i], Hash: h})
	}
	return out
}

func hpPos(x []rm.HP) []uint64 {
	out := make([]uint64, len(x))
	for i := range x {
		out[i] = x[i].Pos
	}
	return out
}

// compareUpdateData reports the clauses on which got differs from want.
func compareUpdateData(got u.UpdateData, want rm.ExpUpdate, t blockTraits, fail func(clause, trigger, detail string)) {
	trig := ""
	if t.OverwritesEmpty {
		trig = "adds-overwrite-empty-root"
	}
	if got.PrevNumLeaves != want.PrevNumLeaves {
		fail("PrevNumLeaves", trig, fmt.Sprintf("got %d want %d", got.PrevNumLeaves, want.PrevNumLeaves))
	}
	if !eqU64(got.ToDestroy, want.ToDestroy) {
		fail("ToDestroy", trig, fmt.Sprintf("got %v want %v", got.ToDestroy, want.ToDestroy))
	}
	if len(got.NewDelPos) != len(got.NewDelHash) {
		fail("NewDel-length-mismatch", trig, fmt.Sprintf("%d positions, %d hashes", len(got.NewDelPos), len(got.NewDelHash)))
	} else {
		gd := hpList(got.NewDelPos, got.NewDelHash)
		if !eqU64(hpPos(gd), hpPos(want.NewDel)) {
			fail("NewDel-positions", trig, fmt.Sprintf("got %v want %v", hpPos(gd), hpPos(want.NewDel)))
		} else {
			for i := range gd {
				if gd[i].Hash != want.NewDel[i].Hash {
					fail("NewDel-hash", trig, fmt.Sprintf("at position %d got %s want %s", gd[i].Pos, hs(gd[i].Hash), hs(want.NewDel[i].Hash)))
					break
				}
			}
		}
	}
	if len(got.NewAddPos) != len(got.NewAddHash) {
		fail("NewAdd-length-mismatch", trig, fmt.Sprintf("%d positions, %d hashes", len(got.NewAddPos), len(got.NewAddHash)))
	} else {
		ga := hpList(got.NewAddPos, got.NewAddHash)
		if !eqU64(hpPos(ga), hpPos(want.NewAdd)) {
			gp, wp := hpPos(ga), hpPos(want.NewAdd)
			tr := trig
			// classify: exactly the lone/lifted added leaves missing?
			miss := diffU64(wp, gp)
			extra := diffU64(gp, wp)
			if len(extra) == 0 && len(miss) > 0 {
				tr = joinTrig(trig, "missing-only")
			}
			fail("NewAdd-positions", tr, fmt.Sprintf("got %v want %v (missing %v, extra %v)", gp, wp, miss, extra))
		} else {
			for i := range ga {
				if ga[i].Hash != want.NewAdd[i].Hash {
					fail("NewAdd-hash", trig, fmt.Sprintf("at position %d got %s want %s", ga[i].Pos, hs(ga[i].Hash), hs(want.NewAdd[i].Hash)))
					break
				}
			}
		}
	}
}

func joinTrig(a, b string) string {
	if a == "" {
		return b
	}
	if b == "" {
		return a
	}
	return a + "," + b
}

// diffU64 returns the elements of a not in b.
func diffU64(a, b []uint64) []uint64 {
	in := map[uint64]int{}
	for _, x := range b {
		in[x]++
	}
	var out []uint64
	for _, x := range a {
		if in[x] > 0 {
			in[x]--
			continue
		}
		out = append(out, x)
	}
	return out
}

func c11Check(c *core.Ctx, s histScenario) {
	c.SetScenario(s)
	w := NewWorld(s.History.Tag, nil)
	w.SetLeafMode(s.LeafMode)
	if s.LeafMode != "" {
		c.Count("histories_with_leaf_mode_"+s.LeafMode, 1)
	}
	for bi, b := range s.History.Blocks {
		rec := w.PrepareBlock(b)
		want, _ := rm.ExpectUpdateData(rec.Before, b.Dels, rec.AddHashes)
		ok := w.ApplyToStump(rec, func(site, clause, trigger, detail string) {
			c.Violate(site, clause, trigger, fmt.Sprintf("block %d: %s", bi, detail))
		})
		w.CommitModel(rec)
		if !ok {
			return
		}
		t := traits(rec)
		countTraits(c, t)
		c.Eval(1)
		compareUpdateData(rec.UD, want, t, func(clause, trigger, detail string) {
			c.Violate("Stump.Update", clause, trigger, fmt.Sprintf("block %d (dels %v, adds %d, N before %d): %s", bi, b.Dels, b.Adds, rec.PrevN, detail))
		})
		if len(want.ToDestroy) > 0 {
			c.Count("blocks_with_nonempty_ToDestroy", 1)
		}
		c.Max("max_NewAdd_entries", len(want.NewAdd))
		c.Max("max_NewDel_entries", len(want.NewDel))
		if len(b.Dels) > 0 || t.OverwritesEmpty {
			c.Distinct(core.FP(rec.Before.Alive, sortedInts(b.Dels), b.Adds))
		}
		if c.CaseViolations() > 0 {
			return
		}
		if bi == len(s.History.Blocks)-1 && c.WantSample(c.Suite) {
			c.Sample(c.Suite, map[string]any{"history": s.History, "last_block_update_data": map[string]any{
				"PrevNumLeaves": rec.UD.PrevNumLeaves, "ToDestroy": rec.UD.ToDestroy, "NewDelPos": rec.UD.NewDelPos, "NewAddPos": rec.UD.NewAddPos}})
		}
	}
}

func sortedInts(x []int) []int {
	y := append([]int(nil), x...)
	for i := 1; i < len(y); i++ {
		for j := i; j > 0 && y[j] < y[j-1]; j-- {
			y[j], y[j-1] = y[j-1], y[j]
		}
	}
	return y
}
