package mon

import (
	"encoding/json"
	"fmt"
	"math/rand"
	"sort"

	u "github.com/utreexo/utreexo"

	"verifharness/core"
	"verifharness/gen"
	rm "verifharness/refmodel"
)

// C02 — every live leaf set is provable; proofs are canonical and verify everywhere.

func c02Plan(tier string) histPlan {
	if tier == "thorough" {
		return histPlan{Enum: gen.EnumParams{MaxAdds: []int{5, 4, 3}}, Rand: 60000, Tall: 150}
	}
	return histPlan{Enum: gen.EnumParams{MaxAdds: []int{4, 3, 2}}, Rand: 4000, Tall: 6}
}

func init() {
	core.Register(&core.Monitor{
		ID:    "C02",
		Level: "exploration",
		Rule: "cases = block histories (enumerated small scope + seeded random + tall); at every state each prover (Pollard, full MapPollards at rotated TotalRows, partial MapPollard restricted to its remembered leaves) " +
			"is asked for all singletons, the full live set and random subsets in random request order (all subsets when <=6 live leaves). An evaluation = one Prove result compared byte-for-byte " +
			"with the reference canonical proof (targets in request order, proof hashes by row then position) and then verified by Verify(stump), Pollard.Verify and every MapPollard.Verify; Verify's root indexes compared with the trees containing the targets. " +
			"Non-trivial = request of >=2 leaves or a forest with deleted leaves; distinct = distinct (alive pattern, request slots in order, prover configuration).",
		Assumptions: []string{"SHA-512/256 collision freedom", "reference model correct"},
		MinDistinct: 100,
		Plan: func(tier string) []core.Suite {
			n := 3000
			if tier == "thorough" {
				n = 40000
			}
			return append(c02Plan(tier).suites(), core.Suite{Name: "ops", N: n})
		},
		Run: func(c *core.Ctx) {
			if c.Suite == "ops" {
				// states reached through undo, remembering, pruning and refused calls
				prof := gen.Tiny
				if c.Index%3 == 0 {
					prof = gen.Small
				}
				prof.RememberMode = 1
				tag := uint64(c.Seed)<<32 | uint64(c.Index) | 1<<52
				cfgs := []InstCfg{{Kind: "pollard"}, {"mapfull", []uint8{0, 5, 63}[c.Index%3]}, {"mappartial", []uint8{63, 0, 2}[c.Index%3]}}
				s := genForestScenario(c.Rng, tag, cfgs, fGenOpts{Profile: prof, Rounds: 1 + c.Rng.Intn(3), Undo: true, PartialOps: true, ForceEmptyRootOverwrite: c.Index%4 == 0, Reload: c.Index%4 == 1, JunkProofs: c.Index%4 == 2})
				if c.Index%8 == 5 {
					s.LeafMode = "readd"
				}
				c02Ops(c, s)
				return
			}
			h := c02Plan(c.Tier).history(c)
			cfgs := StdCfgs(c.Rng, c.Tier, c.Index)
			if c.Suite == "tall" {
				cfgs = []InstCfg{{Kind: "pollard"}, {"mapfull", 0}, {"mapfull", uint8(13 + c.Index%51)}, {"mappartial", 63}}
			}
			mode := ""
			if c.Suite == "rand" && c.Index%8 == 5 {
				mode = "readd"
			}
			c02Check(c, histScenario{History: h, Cfgs: cfgs, LeafMode: mode})
		},
		Replay: func(c *core.Ctx, raw json.RawMessage) {
			var fs fScenario
			if json.Unmarshal(raw, &fs) == nil && len(fs.Ops) > 0 {
				c02Ops(c, fs)
				return
			}
			s, err := parseHistScenario(raw)
			if err != nil {
				c.Inconclusive("bad scenario")
				return
			}
			if len(s.Cfgs) == 0 {
				s.Cfgs = StdCfgs(rand.New(rand.NewSource(1)), "quick", 0)
			}
			c02Check(c, s)
		},
	})
}

// requestSets draws the slot lists to prove from the candidate slots.
func requestSets(rng *rand.Rand, cand []int, k int, allSingles bool) [][]int {
	var out [][]int
	if len(cand) == 0 {
		return nil
	}
	if len(cand) <= 6 {
		for _, s := range gen.Subsets(cand) {
			if len(s) == 0 {
				continue
			}
			s = append([]int(nil), s...)
			rng.Shuffle(len(s), func(i, j int) { s[i], s[j] = s[j], s[i] })
			out = append(out, s)
		}
		return out
	}
	if allSingles && len(cand) <= 40 {
		for _, s := range cand {
			out = append(out, []int{s})
		}
	} else {
		for i := 0; i < 5; i++ {
			out = append(out, []int{cand[rng.Intn(len(cand))]})
		}
	}
	full := append([]int(nil), cand...)
	rng.Shuffle(len(full), func(i, j int) { full[i], full[j] = full[j], full[i] })
	out = append(out, full)
	for i := 0; i < k; i++ {
		p := append([]int(nil), cand...)
		rng.Shuffle(len(p), func(i, j int) { p[i], p[j] = p[j], p[i] })
		n := 1 + rng.Intn(len(p))
		if i%2 == 0 && n > 6 {
			n = 2 + rng.Intn(5)
		}
		out = append(out, p[:n])
	}
	return out
}

func rootIndexSet(f *rm.Forest, targets []uint64) []int {
	set := map[int]bool{}
	for _, t := range targets {
		if n := f.Nodes[t]; n != nil {
			set[n.Tree] = true
		}
	}
	var out []int
	for i := range set {
		out = append(out, i)
	}
	sort.Ints(out)
	return out
}

func c02CheckState(c *core.Ctx, w *World, f *rm.Forest, when string, k int) {
	live := w.M.Live()
	if len(live) == 0 {
		return
	}
	dirty := w.M.NumLive() != len(w.M.Leaves)
	for _, in := range w.Insts {
		cand := live
		if in.Partial() {
			cand = nil
			for _, s := range live {
				if in.Rem[w.M.Leaves[s]] {
					cand = append(cand, s)
				}
			}
		}
		for _, req := range requestSets(c.Rng, cand, k, in.Cfg.Kind != "mappartial" || true) {
			hashes := make([]Hash, len(req))
			for i, s := range req {
				hashes[i] = w.M.Leaves[s]
			}
			want, _ := f.ProofForHashes(hashes)
			c.Eval(1)
			got, err := in.U.Prove(cloneHashes(hashes))
			site := in.Cfg.Kind + ".Prove"
			desc := fmt.Sprintf("%s: %s asked for slots %v", when, in.Name, req)
			if err != nil {
				c.Violate(site, "prove-error", "", fmt.Sprintf("%s: %v", desc, err))
				continue
			}
			if !eqU64(got.Targets, want.Targets) {
				c.Violate(site, "targets-differ", "", fmt.Sprintf("%s: targets %v, reference %v", desc, got.Targets, want.Targets))
				continue
			}
			if !eqHashes(got.Proof, want.Proof) {
				c.Violate(site, "proof-not-canonical", "", fmt.Sprintf("%s: proof %s, reference %s", desc, hashesStr(got.Proof), hashesStr(want.Proof)))
				continue
			}
			// acceptance everywhere
			idx, err := u.Verify(w.Stump, cloneHashes(hashes), cloneProof(got))
			if err != nil {
				c.Violate("Verify", "honest-proof-rejected", "", fmt.Sprintf("%s: %v", desc, err))
			} else {
				gi := append([]int(nil), idx...)
				sort.Ints(gi)
				wi := rootIndexSet(f, want.Targets)
				if fmt.Sprint(gi) != fmt.Sprint(wi) {
					c.Violate("Verify", "root-indexes", "", fmt.Sprintf("%s: root indexes %v, trees containing the targets %v", desc, idx, wi))
				}
			}
			for _, v := range w.Insts {
				if err := v.U.Verify(cloneHashes(hashes), cloneProof(got), false); err != nil {
					c.Violate(v.Cfg.Kind+".Verify", "honest-proof-rejected", "", fmt.Sprintf("%s verified by %s: %v", desc, v.Name, err))
				}
			}
			if len(req) >= 2 || dirty {
				c.Distinct(core.FP(w.M.Alive, req, in.Name))
			}
			if len(req) >= 2 && c.WantSample("proof") {
				c.Sample("proof", map[string]any{"alive": aliveStr(w.M.Alive), "prover": in.Name, "request_slots": req, "targets": got.Targets, "proof_len": len(got.Proof)})
			}
		}
	}
}

// c02Ops runs the per-state prover checks after every operation of a forest scenario.
func c02Ops(c *core.Ctx, s fScenario) {
	c.SetScenario(s)
	k := 2
	if c.Tier == "thorough" {
		k = 8
	}
	runForest(c, s, func(site, clause, trigger, detail string) { c.Violate(site, "setup:"+clause, trigger, detail) }, func(st *fState) {
		if st.Quiet {
			return
		}
		c.Count("states_after_"+st.Op.Kind, 1)
		c02CheckState(c, st.W, st.F, st.When, k)
	})
}

func aliveStr(a []bool) string {
	b := make([]byte, len(a))
	for i, x := range a {
		if x {
			b[i] = '1'
		} else {
			b[i] = '0'
		}
	}
	if len(b) > 200 {
		return string(b[:200]) + "..."
	}
	return string(b)
}

func c02Check(c *core.Ctx, s histScenario) {
	c.SetScenario(s)
	fail := func(site, clause, trigger, detail string) { c.Violate(site, "setup:"+clause, trigger, detail) }
	w := NewWorld(s.History.Tag, s.Cfgs)
	w.SetLeafMode(s.LeafMode)
	if s.LeafMode != "" {
		c.Count("histories_with_leaf_mode_"+s.LeafMode, 1)
	}
	k := 4
	if c.Tier == "thorough" {
		k = 16
	}
	for bi, b := range s.History.Blocks {
		rec, ok := w.ApplyBlock(b, fail)
		countTraits(c, traits(rec))
		if !ok {
			return
		}
		if c.Suite == "tall" && bi%4 != 3 && bi != len(s.History.Blocks)-1 {
			continue
		}
		c02CheckState(c, w, w.M.Forest(), fmt.Sprintf("after block %d", bi), k)
		if c.CaseViolations() > 0 {
			return
		}
	}
	c.Max("max_leaves", len(w.M.Leaves))
}
