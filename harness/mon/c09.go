package mon

import (
	"encoding/json"
	"fmt"

	"verifharness/core"
	"verifharness/gen"
	rm "verifharness/refmodel"
)

// C09 — a partial forest stores only true, needed hashes and can always prove its cache.

func init() {
	core.Register(&core.Monitor{
		ID:    "C09",
		Level: "exploration",
		Rule: "cases = random interleavings (about 14-30 operations) of blocks with random Remember flags (deletions first verified with remember), Verify(remember=true) of arbitrary live subsets, Ingest of reference proofs, " +
			"Prune of arbitrary subsets and Undo, on non-full MapPollards started empty with TotalRows in {0,2,63,random} or from bare roots at a reachable state. After every operation the invariant walk (Nodes.ForEach / CachedLeaves.ForEach) checks: " +
			"every stored position holds a node and stores its true hash (empty roots = zero hash); nothing is stored outside roots, remembered leaves, their ancestors and the siblings on their paths; CachedLeaves equals the remembered set with true positions; " +
			"Prove of the whole remembered set and of each single remembered leaf equals the canonical proof. An evaluation = one stored entry or one proof compared. Non-trivial = state with a non-empty remembered set after a prune, undo or deletion; " +
			"distinct = distinct (alive pattern, remembered slots, op kind, TotalRows).",
		Assumptions: []string{"SHA-512/256 collision freedom", "reference model correct",
			"'positions on their proof paths' is read as ancestors and proof siblings of remembered leaves",
			"leaves remembered between a block and its undo stay remembered; Undo re-remembers the block's deleted leaves"},
		MinDistinct: 100,
		Plan: func(tier string) []core.Suite {
			if tier == "thorough" {
				return []core.Suite{{Name: "ops", N: 800000}}
			}
			return []core.Suite{{Name: "ops", N: 12000}}
		},
		Run: func(c *core.Ctx) {
			tag := uint64(c.Seed)<<32 | uint64(c.Index)
			cfgs := []InstCfg{{"mappartial", []uint8{0, 2, 63}[c.Index%3]}, {"mappartial", uint8(c.Rng.Intn(64))}}
			p := gen.Tiny
			if c.Index%4 == 0 {
				p = gen.Small
				p.MaxLeaves = 70
			}
			p.RememberMode = 1
			s := genForestScenario(c.Rng, tag, cfgs, fGenOpts{Profile: p, Rounds: 2 + c.Rng.Intn(3), Undo: c.Index%3 != 1, PartialOps: true, ForceEmptyRootOverwrite: c.Index%5 == 0, Reload: c.Index%4 == 2, JunkProofs: c.Index%4 == 0})
			c09Check(c, s)
		},
		Replay: func(c *core.Ctx, raw json.RawMessage) {
			var s fScenario
			if err := json.Unmarshal(raw, &s); err != nil {
				c.Inconclusive("bad scenario")
				return
			}
			c09Check(c, s)
		},
	})
}

func c09Check(c *core.Ctx, s fScenario) {
	c.SetScenario(s)
	runForest(c, s, func(site, clause, trigger, detail string) { c.Violate(site, clause, trigger, detail) },
		func(st *fState) {
			for _, in := range st.W.Insts {
				if !in.Partial() {
					continue
				}
				c09CheckInst(c, st.W, in, st.F, st.When, st.Op.Kind)
				if c.CaseViolations() > 0 {
					return
				}
			}
		})
	if c.WantSample("ops") && c.CaseViolations() == 0 {
		c.Sample("ops", s)
	}
}

func c09CheckInst(c *core.Ctx, w *World, in *Inst, f *rm.Forest, when, opKind string) {
	mp := in.MP
	site := "mappartial." + map[string]string{"block": "Modify", "undo": "Undo", "verify": "Verify(remember)", "ingest": "Ingest", "prune": "Prune", "badmodify": "Modify(rejected)"}[opKind]
	desc := fmt.Sprintf("%s: %s (N=%d, TotalRows=%d, %d remembered)", when, in.Name, f.N, mp.TotalRows, len(in.Rem))
	trig := ""
	if in.Name == "mappartial/fromroots" {
		trig = "from-roots"
	}
	c.Eval(1)
	if mp.GetNumLeaves() != f.N || !eqHashes(mp.GetRoots(), f.Roots) {
		c.Violate(site, "roots", trig, fmt.Sprintf("%s: roots %s, reference %s", desc, hashesStr(mp.GetRoots()), hashesStr(f.Roots)))
		return
	}
	// allowed positions
	allowed := map[uint64]bool{}
	for _, t := range f.Trees {
		allowed[t.Pos] = true
	}
	var remT []uint64
	var remH []Hash
	for h := range in.Rem {
		p, ok := f.LeafPos[h]
		if !ok {
			c.Inconclusive("harness: remembered leaf is not live")
			return
		}
		remT = append(remT, p)
		remH = append(remH, h)
	}
	path, sibs := f.PathAndProofPositions(remT)
	for p := range path {
		allowed[p] = true
	}
	for p := range sibs {
		allowed[p] = true
	}
	rootSet := f.RootPosSet()
	var zero Hash
	bad := false
	stored := 0
	mp.Nodes.ForEach(func(p uint64, l Leaf) error {
		stored++
		c.Eval(1)
		q := rm.Translate(p, mp.TotalRows, f.H)
		nd := f.Nodes[q]
		if nd == nil {
			if rootSet[q] && l.Hash == zero {
				return nil
			}
			r, _ := rm.OffsetOf(q, f.H)
			c.Violate(site, "stores-position-without-node", trig, fmt.Sprintf("%s: stores %s at position %d (row %d) where no node sits", desc, hs(l.Hash), q, r))
			bad = true
			return fmt.Errorf("stop")
		}
		if nd.Hash != l.Hash {
			c.Violate(site, "stored-hash-wrong", trig, fmt.Sprintf("%s: position %d stores %s, true hash %s", desc, q, hs(l.Hash), hs(nd.Hash)))
			bad = true
			return fmt.Errorf("stop")
		}
		if !allowed[q] {
			c.Violate(site, "stores-unneeded-position", trig, fmt.Sprintf("%s: position %d is stored but is neither a root, a remembered leaf, an ancestor nor a proof sibling of one", desc, q))
			bad = true
			return fmt.Errorf("stop")
		}
		return nil
	})
	if bad {
		return
	}
	c.Eval(1)
	if mp.CachedLeaves.Length() != len(in.Rem) {
		c.Violate(site, "cached-set-differs", trig, fmt.Sprintf("%s: CachedLeaves.Length()=%d, remembered %d", desc, mp.CachedLeaves.Length(), len(in.Rem)))
		return
	}
	mp.CachedLeaves.ForEach(func(h Hash, p uint64) error {
		q := rm.Translate(p, mp.TotalRows, f.H)
		if !in.Rem[h] || f.LeafPos[h] != q {
			c.Violate(site, "cached-set-differs", trig, fmt.Sprintf("%s: CachedLeaves has %s at %d; remembered=%v true position %d", desc, hs(h), q, in.Rem[h], f.LeafPos[h]))
			bad = true
			return fmt.Errorf("stop")
		}
		return nil
	})
	if bad {
		return
	}
	if len(remH) > 0 {
		c.Eval(1)
		want, _ := f.ProofForHashes(remH)
		got, err := mp.Prove(cloneHashes(remH))
		if err != nil {
			c.Violate(site, "cannot-prove-remembered-set", trig, fmt.Sprintf("%s: %v", desc, err))
			return
		}
		if !eqProof(got, want) {
			c.Violate(site, "proof-not-canonical", trig, fmt.Sprintf("%s: got %s, reference %s", desc, proofStr(got), proofStr(want)))
			return
		}
		for _, h := range remH {
			c.Eval(1)
			want, _ := f.ProofForHashes([]Hash{h})
			got, err := mp.Prove([]Hash{h})
			if err != nil {
				c.Violate(site, "cannot-prove-remembered-leaf", trig, fmt.Sprintf("%s: leaf %s: %v", desc, hs(h), err))
				return
			}
			if !eqProof(got, want) {
				c.Violate(site, "proof-not-canonical", trig, fmt.Sprintf("%s: leaf %s: got %s, reference %s", desc, hs(h), proofStr(got), proofStr(want)))
				return
			}
		}
	}
	c.Count("states_checked_after_"+opKind, 1)
	c.Max("max_stored_positions", stored)
	c.Max("max_remembered", len(in.Rem))
	if len(in.Rem) > 0 && (opKind != "block" || w.M.NumLive() != len(w.M.Leaves)) {
		c.Distinct(core.FP(w.M.Alive, heldSlotsIn(w.M, remH), opKind, int(mp.TotalRows)))
	}
}
