package mon

import (
	"encoding/json"
	"fmt"
	"math/big"
	"math/rand"
	"sort"

	u "github.com/utreexo/utreexo"

	"verifharness/core"
)

// C16 — exported position arithmetic matches the forest geometry.
// Oracle: geometry in math/big; shares no shifts/masks with utils.go.

func bstart(r, h uint) *big.Int {
	a := new(big.Int).Lsh(big.NewInt(1), h+1)
	b := new(big.Int).Lsh(big.NewInt(1), h+1-r)
	return a.Sub(a, b)
}

func bpos(r, h uint, off *big.Int) uint64 {
	return new(big.Int).Add(bstart(r, h), off).Uint64()
}

type bigTree struct {
	row   uint
	start *big.Int // first slot
}

func bigTrees(n uint64, h uint) []bigTree {
	var out []bigTree
	start := new(big.Int)
	for r := int(h); r >= 0; r-- {
		if (n>>uint(r))&1 == 0 {
			continue
		}
		out = append(out, bigTree{uint(r), new(big.Int).Set(start)})
		start = new(big.Int).Add(start, new(big.Int).Lsh(big.NewInt(1), uint(r)))
	}
	return out
}

func c16Plan(tier string) []core.Suite {
	if tier == "thorough" {
		return []core.Suite{{Name: "small", N: 9, Exhaustive: true, CaseTimeout: 900}, {Name: "proofpos", N: 13, Exhaustive: true, CaseTimeout: 900}, {Name: "large", N: 64 * 4000}, {Name: "ppbig", N: 3000}}
	}
	return []core.Suite{{Name: "small", N: 7, Exhaustive: true}, {Name: "proofpos", N: 9, Exhaustive: true}, {Name: "large", N: 64 * 40}, {Name: "ppbig", N: 160}}
}

func init() {
	core.Register(&core.Monitor{
		ID:    "C16",
		Level: "exploration",
		Rule: "suite 'small': for every forest height h<=6 (thorough 8), every position of every row and every leaf count: Parent/LeftChild/RightChild/ChildMany/ParentMany/DetectRow/TreeRows/RootPositions/DetectOffset " +
			"against a math/big geometry (row r starts at 2^(h+1)-2^(h+1-r)); suite 'proofpos': for every leaf count n<=9 (thorough 13) and every subset of leaf positions, at totalRows in {TreeRows(n), +1, +3, 63}: ProofPositions against the set definition; " +
			"suite 'large': heights 0..63 with boundary and seeded random offsets and leaf counts up to 2^63. evaluation = one function result compared. Non-trivial = every compared call; distinct = distinct (function, height, row, offset/leaf count) fingerprints.",
		Assumptions: []string{"math/big is correct", "results for positions outside the stated domain are not checked except documented error returns"},
		MinDistinct: 500,
		Plan:        c16Plan,
		Run: func(c *core.Ctx) {
			switch c.Suite {
			case "small":
				c16Small(c, uint(c.Index))
			case "proofpos":
				c16ProofPos(c, uint64(c.Index)+1)
			case "ppbig":
				c16ProofPosBig(c, c.Index)
			default:
				c16Large(c, uint(c.Index%64))
			}
		},
		Replay: func(c *core.Ctx, raw json.RawMessage) {
			var s struct {
				Suite string `json:"suite"`
				H     uint   `json:"h"`
				N     uint64 `json:"n"`
			}
			json.Unmarshal(raw, &s)
			switch s.Suite {
			case "ppbig":
				c16ProofPosBig(c, int(s.N))
			case "small":
				c16Small(c, s.H)
			case "proofpos":
				c16ProofPos(c, s.N)
			default:
				c16Large(c, s.H)
			}
		},
	})
}

func c16Position(c *core.Ctx, h, row uint, off *big.Int, rng *rand.Rand, allSteps bool) {
	p := bpos(row, h, off)
	e := fmt.Sprintf("h=%d row=%d offset=%v pos=%d", h, row, off, p)
	bad := func(fn, detail string) { c.Violate(fn, "geometry", "", e+": "+detail) }
	c.Eval(1)
	c.Distinct(core.FP("pos", int(h), int(row), off.String()))
	if got := u.DetectRow(p, uint8(h)); uint(got) != row {
		bad("DetectRow", fmt.Sprintf("got %d", got))
	}
	if row < h {
		want := bpos(row+1, h, new(big.Int).Rsh(off, 1))
		c.Eval(1)
		got := u.Parent(p, uint8(h))
		if got != want {
			bad("Parent", fmt.Sprintf("got %d want %d", got, want))
		}
		// inverse: the parent's matching child is p
		var back uint64
		if off.Bit(0) == 0 {
			back = u.LeftChild(want, uint8(h))
		} else {
			back = u.RightChild(want, uint8(h))
		}
		if back != p {
			bad("LeftChild/RightChild", fmt.Sprintf("child of parent %d is %d, not the start position", want, back))
		}
		for rise := uint(0); row+rise <= h; {
			want := bpos(row+rise, h, new(big.Int).Rsh(off, rise))
			c.Eval(1)
			got, err := u.ParentMany(p, uint8(rise), uint8(h))
			if err != nil || got != want {
				bad("ParentMany", fmt.Sprintf("rise %d got %d err %v want %d", rise, got, err, want))
			}
			if allSteps {
				rise++
			} else {
				rise += 1 + uint(rng.Intn(5))
			}
		}
	}
	if row > 0 {
		wl := bpos(row-1, h, new(big.Int).Lsh(off, 1))
		c.Eval(2)
		if got := u.LeftChild(p, uint8(h)); got != wl {
			bad("LeftChild", fmt.Sprintf("got %d want %d", got, wl))
		}
		if got := u.RightChild(p, uint8(h)); got != wl+1 {
			bad("RightChild", fmt.Sprintf("got %d want %d", got, wl+1))
		}
		if got := u.Parent(wl, uint8(h)); got != p {
			bad("Parent", fmt.Sprintf("parent of left child %d is %d", wl, got))
		}
		if got := u.Parent(wl+1, uint8(h)); got != p {
			bad("Parent", fmt.Sprintf("parent of right child %d is %d", wl+1, got))
		}
		for drop := uint(0); drop <= row; {
			want := bpos(row-drop, h, new(big.Int).Lsh(off, drop))
			c.Eval(1)
			got, err := u.ChildMany(p, uint8(drop), uint8(h))
			if err != nil || got != want {
				bad("ChildMany", fmt.Sprintf("drop %d got %d err %v want %d", drop, got, err, want))
			} else if drop > 0 {
				// inverse
				back, err := u.ParentMany(got, uint8(drop), uint8(h))
				if err != nil || back != p {
					bad("ParentMany", fmt.Sprintf("ParentMany(ChildMany(p,%d),%d)=%d err %v", drop, drop, back, err))
				}
			}
			if allSteps {
				drop++
			} else {
				drop += 1 + uint(rng.Intn(5))
			}
		}
	}
	// documented error returns
	if h < 255 {
		if _, err := u.ChildMany(p, uint8(h+1), uint8(h)); err == nil {
			bad("ChildMany", "no error for drop > forestRows")
		}
		if _, err := u.ParentMany(p, uint8(h+1), uint8(h)); err == nil {
			bad("ParentMany", "no error for rise > forestRows")
		}
	}
}

func c16LeafCount(c *core.Ctx, n uint64, h uint, rng *rand.Rand, allPositions bool) {
	e := fmt.Sprintf("numLeaves=%d h=%d", n, h)
	c.Eval(1)
	c.Distinct(core.FP("n", n, int(h)))
	if got := u.TreeRows(n); uint(got) != h {
		c.Violate("TreeRows", "geometry", "", fmt.Sprintf("%s: got %d", e, got))
		return
	}
	trees := bigTrees(n, h)
	for _, tot := range []uint{h, h + 1, h + 5, 63} {
		if tot > 63 {
			continue
		}
		var want []uint64
		for _, t := range trees {
			want = append(want, bpos(t.row, tot, new(big.Int).Rsh(t.start, t.row)))
		}
		c.Eval(1)
		got := u.RootPositions(n, uint8(tot))
		if !eqU64(got, want) {
			c.Violate("RootPositions", "geometry", "", fmt.Sprintf("%s totalRows=%d: got %v want %v", e, tot, got, want))
		}
		// the result is the caller's: writing to it must not change what the function says next
		// (added after seeded change C16h, a memo that hands the same slice out again)
		for i := range got {
			got[i] = ^got[i]
		}
		c.Eval(1)
		if again := u.RootPositions(n, uint8(tot)); !eqU64(again, want) {
			c.Violate("RootPositions", "geometry", "after-the-caller-wrote-to-an-earlier-result", fmt.Sprintf("%s totalRows=%d: second call got %v want %v", e, tot, again, want))
		}
	}
	check := func(ti int, row uint, o *big.Int) {
		t := trees[ti]
		absoff := new(big.Int).Add(new(big.Int).Rsh(t.start, row), o)
		p := bpos(row, h, absoff)
		c.Eval(1)
		tree, blen, bits, err := u.DetectOffset(p, n)
		if err != nil || int(tree) != ti || uint(blen) != t.row-row {
			c.Violate("DetectOffset", "tree/branch-length", "", fmt.Sprintf("%s pos=%d: got tree %d branchLen %d err %v; want tree %d branchLen %d", e, p, tree, blen, err, ti, t.row-row))
			return
		}
		// Replay the L/R walk positionally from the root.  The bit field is in
		// "niece" form (roots point to children, other nodes to nieces): step i
		// takes child[1-b_i] except the last step, which takes child[b_k].
		k := int(blen)
		curRow := t.row
		curOff := new(big.Int).Rsh(t.start, t.row)
		for i := k - 1; i >= 0; i-- {
			b := uint((bits >> uint(i)) & 1)
			d := 1 - b
			if i == 0 {
				d = b
			}
			curRow--
			curOff = new(big.Int).Lsh(curOff, 1)
			if d == 1 {
				curOff.Add(curOff, big.NewInt(1))
			}
		}
		if end := bpos(curRow, h, curOff); end != p {
			c.Violate("DetectOffset", "bit-walk", "", fmt.Sprintf("%s pos=%d: walking bits %b (len %d) from root of tree %d ends at %d", e, p, bits, k, ti, end))
		}
	}
	// Positions of the height that the leaf count does not populate: the first unused leaf slot
	// must be refused with the function's documented error (unless it is the start of row 1, i.e.
	// n is a power of two), and the call must return for the first unused offset of every row
	// (a call that spins is caught by the driver's watchdog as a case that does not return).
	if n&(n-1) != 0 {
		c.Eval(1)
		if tree, blen, _, err := u.DetectOffset(n, n); err == nil {
			c.Violate("DetectOffset", "absent-position-accepted", "", fmt.Sprintf("%s: DetectOffset(%d, %d) names tree %d branch length %d for the first unused leaf slot instead of returning its error", e, n, n, tree, blen))
		}
	}
	for row := uint(0); row <= h && row < 64; row++ {
		used := new(big.Int).Rsh(new(big.Int).SetUint64(n), row) // offsets 0..used-1 of this row can hold nodes
		width := new(big.Int).Lsh(big.NewInt(1), h-row)
		if used.Cmp(width) < 0 {
			c.Eval(1)
			u.DetectOffset(bpos(row, h, used), n)
			c.Count("detectoffset_calls_on_unpopulated_positions", 1)
		}
	}
	for ti, t := range trees {
		if allPositions {
			for row := uint(0); row <= t.row; row++ {
				w := uint64(1) << (t.row - row)
				for o := uint64(0); o < w; o++ {
					check(ti, row, new(big.Int).SetUint64(o))
				}
			}
		} else {
			for k := 0; k < 4; k++ {
				row := uint(rng.Intn(int(t.row) + 1))
				w := new(big.Int).Lsh(big.NewInt(1), t.row-row)
				var o *big.Int
				switch k {
				case 0:
					o = big.NewInt(0)
				case 1:
					o = new(big.Int).Sub(w, big.NewInt(1))
				default:
					o = new(big.Int).Rand(rng, w)
				}
				check(ti, row, o)
			}
		}
	}
}

func c16Small(c *core.Ctx, h uint) {
	c.SetScenario(map[string]any{"suite": "small", "h": h})
	rng := rand.New(rand.NewSource(int64(h)))
	for row := uint(0); row <= h; row++ {
		w := uint64(1) << (h - row)
		for o := uint64(0); o < w; o++ {
			c16Position(c, h, row, new(big.Int).SetUint64(o), rng, true)
		}
	}
	lo := uint64(1)
	if h > 0 {
		lo = uint64(1)<<(h-1) + 1
	}
	for n := lo; n <= uint64(1)<<h; n++ {
		c16LeafCount(c, n, h, rng, true)
	}
	if c.WantSample("small") {
		c.Sample("small", map[string]any{"height": h, "positions_checked": (uint64(2) << h) - 1, "leaf_counts": fmt.Sprintf("%d..%d", lo, uint64(1)<<h)})
	}
}

func c16Large(c *core.Ctx, h uint) {
	c.SetScenario(map[string]any{"suite": "large", "h": h})
	rng := c.Rng
	for row := uint(0); row <= h; row++ {
		width := new(big.Int).Lsh(big.NewInt(1), h-row)
		offs := []*big.Int{big.NewInt(0), big.NewInt(1), new(big.Int).Sub(width, big.NewInt(1)), new(big.Int).Sub(width, big.NewInt(2)), new(big.Int).Rsh(width, 1)}
		for k := 0; k < 6; k++ {
			offs = append(offs, new(big.Int).Rand(rng, width))
		}
		for _, off := range offs {
			if off.Sign() < 0 || off.Cmp(width) >= 0 {
				continue
			}
			c16Position(c, h, row, off, rng, false)
		}
	}
	var ns []uint64
	if h == 0 {
		ns = []uint64{1}
	} else {
		lo := uint64(1)<<(h-1) + 1
		hi := uint64(1) << h
		ns = []uint64{lo, hi, hi - 1, lo + 1}
		for k := 0; k < 8; k++ {
			ns = append(ns, lo+uint64(rng.Int63n(int64(hi-lo)+1)))
		}
		var ok []uint64
		for _, n := range ns {
			if n >= lo && n <= hi {
				ok = append(ok, n)
			}
		}
		ns = ok
	}
	for _, n := range ns {
		c16LeafCount(c, n, h, rng, false)
	}
	if c.WantSample("large") {
		c.Sample("large", map[string]any{"height": h, "leaf_counts": ns})
	}
}

// c16ProofPosBig: ProofPositions for hundreds of leaf targets in forests of hundreds to thousands
// of leaves - regular (strided, aligned) target sets whose per-row pair and climber counts hit
// multiples of 256, plus random ones (added after seeded change C16i, 8-bit per-row counters).
// Deterministic in the case index.
func c16ProofPosBig(c *core.Ctx, idx int) {
	c.SetScenario(map[string]any{"suite": "ppbig", "n": idx})
	rng := rand.New(rand.NewSource(int64(idx)*7919 + 17))
	n := []uint64{512, 1024, 2048, 4096, 3000, 777, 2047, 2049}[idx%8]
	stride := uint64(1) << uint((idx/8)%5)
	count := []uint64{256, 512, 255, 257, 128, 1024}[(idx/40)%6]
	start := uint64(0)
	if idx%3 == 1 {
		start = uint64(rng.Intn(int(stride)))
	}
	var slots []uint64
	if idx%4 == 3 {
		// random subset
		for sl := uint64(0); sl < n; sl++ {
			if rng.Intn(4) == 0 {
				slots = append(slots, sl)
			}
		}
	} else {
		for i := uint64(0); i < count && start+i*stride < n; i++ {
			slots = append(slots, start+i*stride)
		}
	}
	if len(slots) == 0 {
		return
	}
	h := uint(u.TreeRows(n))
	trees := bigTrees(n, h)
	type rk struct {
		r uint
		k uint64
	}
	roots := map[rk]bool{}
	for _, t := range trees {
		roots[rk{t.row, new(big.Int).Rsh(t.start, t.row).Uint64()}] = true
	}
	path := map[rk]bool{}
	tset := map[rk]bool{}
	for _, sl := range slots {
		tset[rk{0, sl}] = true
		r, k := uint(0), sl
		for {
			if path[rk{r, k}] {
				break
			}
			path[rk{r, k}] = true
			if roots[rk{r, k}] {
				break
			}
			r, k = r+1, k/2
		}
	}
	for _, tot := range []uint{h, h + 1, h + 4, 63} {
		var wantProof, wantComp []uint64
		for x := range path {
			if !roots[x] {
				if sib := (rk{x.r, x.k ^ 1}); !path[sib] {
					wantProof = append(wantProof, bpos(sib.r, tot, new(big.Int).SetUint64(sib.k)))
				}
			}
			if !tset[x] {
				wantComp = append(wantComp, bpos(x.r, tot, new(big.Int).SetUint64(x.k)))
			}
		}
		sort.Slice(wantProof, func(a, b int) bool { return wantProof[a] < wantProof[b] })
		sort.Slice(wantComp, func(a, b int) bool { return wantComp[a] < wantComp[b] })
		c.Eval(1)
		gotProof, gotComp := u.ProofPositions(cloneU64(slots), n, uint8(tot))
		if !eqU64(gotProof, wantProof) {
			c.Violate("ProofPositions", "proof-positions", "many-targets", fmt.Sprintf("n=%d totalRows=%d, %d targets (first %d, stride %d): got %d positions, want %d", n, tot, len(slots), slots[0], stride, len(gotProof), len(wantProof)))
			return
		}
		if !eqU64(gotComp, wantComp) {
			c.Violate("ProofPositions", "computable-positions", "many-targets", fmt.Sprintf("n=%d totalRows=%d, %d targets (first %d, stride %d): got %d positions, want %d", n, tot, len(slots), slots[0], stride, len(gotComp), len(wantComp)))
			return
		}
		c16ResultsIndependent(c, gotProof, gotComp, fmt.Sprintf("n=%d totalRows=%d, %d targets", n, tot, len(slots)))
		c.Distinct(core.FP("ppbig", n, int(tot), len(slots), int(stride), int(start)))
	}
	c.Count("proof_position_requests_with_hundreds_of_targets", 1)
}

// c16ResultsIndependent: the two slices ProofPositions returns belong to the caller, each on its own.
// Appending to one of them (within whatever capacity it came with) or overwriting its elements must
// leave the other exactly what it was (round 10, seeded change C16j: both carved from one buffer,
// the first without a capacity limit).
func c16ResultsIndependent(c *core.Ctx, a, b []uint64, desc string) {
	wantA, wantB := cloneU64Tight(a), cloneU64Tight(b)
	const mark = 0xA5A5A5A5A5A5A5A5
	grow := func(x []uint64) []uint64 {
		room := cap(x) - len(x)
		if room > 6 {
			room = 6
		}
		for i := 0; i < room; i++ {
			x = append(x, mark+uint64(i)) // stays inside the capacity the library handed out
		}
		return x
	}
	a2 := grow(a)
	if !eqU64(b, wantB) {
		c.Violate("ProofPositions", "results-share-memory", "append-to-first", fmt.Sprintf("%s: appending %d elements to the first result changed the second: %v -> %v", desc, len(a2)-len(a), wantB, b))
		return
	}
	b2 := grow(b)
	if !eqU64(a2[:len(wantA)], wantA) {
		c.Violate("ProofPositions", "results-share-memory", "append-to-second", fmt.Sprintf("%s: appending %d elements to the second result changed the first", desc, len(b2)-len(b)))
		return
	}
	for i := range b {
		b[i] = mark
	}
	if !eqU64(a2[:len(wantA)], wantA) {
		c.Violate("ProofPositions", "results-share-memory", "write-to-second", desc+": overwriting the second result changed the first")
		return
	}
	for i := range a {
		a[i] = mark
	}
	for i := range b {
		if b[i] != mark {
			c.Violate("ProofPositions", "results-share-memory", "write-to-first", desc+": overwriting the first result changed the second")
			return
		}
	}
	c.Count("proof_position_result_pairs_checked_for_shared_memory", 1)
}

func cloneU64Tight(x []uint64) []uint64 { return append([]uint64(nil), x...) }

// c16ProofPos: every subset of leaf positions of a forest with n leaves.
func c16ProofPos(c *core.Ctx, n uint64) {
	c.SetScenario(map[string]any{"suite": "proofpos", "n": n})
	h := uint(u.TreeRows(n))
	// independent check of h
	hh := uint(0)
	for uint64(1)<<hh < n {
		hh++
	}
	if hh != h {
		c.Violate("TreeRows", "geometry", "", fmt.Sprintf("n=%d got %d want %d", n, h, hh))
		return
	}
	trees := bigTrees(n, h)
	type rk struct {
		r uint
		k uint64
	}
	isRoot := func(r uint, k uint64) bool {
		for _, t := range trees {
			if t.row == r && new(big.Int).Rsh(t.start, r).Uint64() == k {
				return true
			}
		}
		return false
	}
	for _, tot := range []uint{h, h + 1, h + 3, 63} {
		for mask := uint64(1); mask < uint64(1)<<n; mask++ {
			var targets []uint64
			path := map[rk]bool{}
			tset := map[rk]bool{}
			for s := uint64(0); s < n; s++ {
				if mask>>s&1 == 0 {
					continue
				}
				targets = append(targets, s) // row 0 positions equal slots at any height
				tset[rk{0, s}] = true
				r, k := uint(0), s
				for {
					path[rk{r, k}] = true
					if isRoot(r, k) {
						break
					}
					r, k = r+1, k/2
				}
			}
			var wantProof, wantComp []uint64
			for x := range path {
				if !isRoot(x.r, x.k) {
					sib := rk{x.r, x.k ^ 1}
					if !path[sib] {
						wantProof = append(wantProof, bpos(sib.r, tot, new(big.Int).SetUint64(sib.k)))
					}
				}
				if !tset[x] {
					wantComp = append(wantComp, bpos(x.r, tot, new(big.Int).SetUint64(x.k)))
				}
			}
			sort.Slice(wantProof, func(a, b int) bool { return wantProof[a] < wantProof[b] })
			sort.Slice(wantComp, func(a, b int) bool { return wantComp[a] < wantComp[b] })
			c.Eval(1)
			in := cloneU64(targets)
			gotProof, gotComp := u.ProofPositions(in, n, uint8(tot))
			if !eqU64(in, targets) {
				c.Violate("ProofPositions", "argument-modified", "", fmt.Sprintf("n=%d totalRows=%d targets %v became %v", n, tot, targets, in))
			}
			if !eqU64(gotProof, wantProof) {
				c.Violate("ProofPositions", "proof-positions", "", fmt.Sprintf("n=%d totalRows=%d targets %v: got %v want %v", n, tot, targets, gotProof, wantProof))
			}
			if !eqU64(gotComp, wantComp) {
				c.Violate("ProofPositions", "computable-positions", "", fmt.Sprintf("n=%d totalRows=%d targets %v: got %v want %v", n, tot, targets, gotComp, wantComp))
			}
			if c.CaseViolations() == 0 {
				c16ResultsIndependent(c, gotProof, gotComp, fmt.Sprintf("n=%d totalRows=%d targets %v", n, tot, targets))
			}
			c.Distinct(core.FP("pp", n, int(tot), mask))
			if c.CaseViolations() > 3 {
				return
			}
		}
	}
	if c.WantSample("proofpos") {
		c.Sample("proofpos", map[string]any{"numLeaves": n, "target_subsets": (uint64(1) << n) - 1, "totalRows": []uint{h, h + 1, h + 3, 63}})
	}
}
