package mon

import (
	"encoding/json"
	"fmt"

	u "github.com/utreexo/utreexo"

	"verifharness/core"
	"verifharness/gen"
	rm "verifharness/refmodel"
)

// C17 — library calls never modify the caller's slices; earlier results do
// not change when later calls are made.

const guardTail = 3

type guard struct {
	name string
	eq   func() bool
	fix  func()
}

// gset holds guarded argument slices: each is a sub-slice of a larger backing
// array whose tail holds sentinels, so an append into the caller's spare
// capacity is visible too.
type gset struct{ gs []*guard }

func (g *gset) H(name string, x []Hash) []Hash {
	back := make([]Hash, len(x)+guardTail)
	copy(back, x)
	for i := len(x); i < len(back); i++ {
		back[i] = rm.FreshHash(0x5e, uint64(i))
	}
	snap := cloneHashes(back)
	g.gs = append(g.gs, &guard{name, func() bool { return eqHashes(back, snap) }, func() { copy(back, snap) }})
	return back[:len(x)]
}

func (g *gset) U(name string, x []uint64) []uint64 {
	back := make([]uint64, len(x)+guardTail)
	copy(back, x)
	for i := len(x); i < len(back); i++ {
		back[i] = 0xdeadbeef00000000 + uint64(i)
	}
	snap := cloneU64(back)
	g.gs = append(g.gs, &guard{name, func() bool { return eqU64(back, snap) }, func() { copy(back, snap) }})
	return back[:len(x)]
}

func (g *gset) U32(name string, x []uint32) []uint32 {
	back := make([]uint32, len(x)+guardTail)
	copy(back, x)
	for i := len(x); i < len(back); i++ {
		back[i] = 0xdead0000 + uint32(i)
	}
	snap := append([]uint32(nil), back...)
	g.gs = append(g.gs, &guard{name, func() bool {
		for i := range back {
			if back[i] != snap[i] {
				return false
			}
		}
		return true
	}, func() { copy(back, snap) }})
	return back[:len(x)]
}

func (g *gset) L(name string, x []u.Leaf) []u.Leaf {
	back := make([]u.Leaf, len(x)+guardTail)
	copy(back, x)
	for i := len(x); i < len(back); i++ {
		back[i] = u.Leaf{Hash: rm.FreshHash(0x5f, uint64(i)), Remember: true}
	}
	snap := append([]u.Leaf(nil), back...)
	g.gs = append(g.gs, &guard{name, func() bool {
		for i := range back {
			if back[i] != snap[i] {
				return false
			}
		}
		return true
	}, func() { copy(back, snap) }})
	return back[:len(x)]
}

// changed returns the names of guards whose backing array changed, and restores them.
func (g *gset) changed() []string {
	var out []string
	for _, x := range g.gs {
		if !x.eq() {
			out = append(out, x.name)
			x.fix()
		}
	}
	return out
}

func c17Plan(tier string) histPlan {
	if tier == "thorough" {
		return histPlan{Enum: gen.EnumParams{MaxAdds: []int{4, 3, 2}}, Rand: 500000, Tall: 60}
	}
	return histPlan{Enum: gen.EnumParams{MaxAdds: []int{3, 2, 2}}, Rand: 6000, Tall: 3}
}

func init() {
	core.Register(&core.Monitor{
		ID:    "C17",
		Level: "exploration",
		Rule: "cases = block histories (enumerated small scope + seeded random + tall). Per block ONE set of guarded argument slices (sub-slices of larger backing arrays with sentinel tails) is reused for the whole sequence " +
			"Verify -> every instance's Verify -> Prove -> GetMissingPositions -> VerifyPartialProof -> Stump.Update -> Proof.Update -> Modify on Pollard/full/partial MapPollard -> Undo -> re-Modify -> Proof.Undo -> Proof.Update again -> AddProof -> GetProofSubset; " +
			"the backing arrays are compared with their snapshots after every call, and every result returned earlier (proofs, update data, roots, cached proof) is re-compared after every later call. " +
			"An evaluation = one call followed by the comparison of all guards and canaries. Non-trivial = call with at least one non-empty slice argument on a block with deletions; distinct = distinct (alive pattern, deletion slots, call name).",
		Assumptions: []string{"the stand-alone GetMissingPositions (documented to sort its second argument) is excluded, as the property states", "receiver fields (Stump.Roots, *Proof of Update/Undo) are state, not caller slices; the previous slices of the receiver are checked as earlier results"},
		MinDistinct: 100,
		Plan:        func(tier string) []core.Suite { return c17Plan(tier).suites() },
		Run: func(c *core.Ctx) {
			c17Check(c, histScenario{History: c17Plan(c.Tier).history(c)})
		},
		Replay: func(c *core.Ctx, raw json.RawMessage) {
			s, err := parseHistScenario(raw)
			if err != nil {
				c.Inconclusive("bad scenario")
				return
			}
			c17Check(c, s)
		},
	})
}

type canary struct {
	name string
	eq   func() bool
}

func c17Check(c *core.Ctx, s histScenario) {
	c.SetScenario(s)
	cfgs := []InstCfg{{Kind: "pollard"}, {"mapfull", 0}, {"mapfull", 63}, {"mappartial", 63}, {"mappartial", 0}}
	if c.Suite == "tall" {
		cfgs = []InstCfg{{Kind: "pollard"}, {"mapfull", 63}, {"mappartial", 63}}
	}
	w := NewWorld(s.History.Tag, cfgs)
	var canaries []canary
	addH := func(name string, x []Hash) {
		snap := cloneHashes(x)
		canaries = append(canaries, canary{name, func() bool { return eqHashes(x, snap) }})
	}
	addU := func(name string, x []uint64) {
		snap := cloneU64(x)
		canaries = append(canaries, canary{name, func() bool { return eqU64(x, snap) }})
	}
	var cached u.Proof
	var cachedHashes []Hash
	bad := false
	for bi, b := range s.History.Blocks {
		rec := w.PrepareBlock(b)
		g := &gset{}
		gDel := g.H("delHashes", rec.DelHashes)
		gT := g.U("proof.Targets", rec.Proof.Targets)
		gP := g.H("proof.Proof", rec.Proof.Proof)
		gA := g.H("addHashes", rec.AddHashes)
		gL := g.L("adds", rec.Adds)
		gPrev := g.H("prevRoots", rec.PrevRoots)
		proof := u.Proof{Targets: gT, Proof: gP}
		if len(rec.DelHashes) == 0 && bi%2 == 0 {
			// also exercise the nil/empty forms
			proof = u.Proof{}
			gDel = nil
		}
		after := func(call string) bool {
			c.Eval(1)
			if ch := g.changed(); len(ch) > 0 {
				for _, name := range ch {
					c.Violate(call, "argument-modified", name, fmt.Sprintf("block %d (dels %v adds %d): caller slice %s changed during %s", bi, b.Dels, b.Adds, name, call))
				}
				bad = true
			}
			for i := range canaries {
				if !canaries[i].eq() {
					c.Violate(call, "earlier-result-changed", canaries[i].name, fmt.Sprintf("block %d: result %s returned earlier changed during %s", bi, canaries[i].name, call))
					bad = true
					canaries = append(canaries[:i], canaries[i+1:]...)
					break
				}
			}
			if len(rec.DelHashes) > 0 {
				c.Distinct(core.FP(rec.Before.Alive, b.Dels, call))
			}
			return !bad
		}
		setup := func(what string, err error) bool {
			if err != nil {
				c.Violate(what, "setup:error-on-honest-input", "", fmt.Sprintf("block %d: %v", bi, err))
				bad = true
				return false
			}
			return true
		}

		_, err := u.Verify(w.Stump, gDel, proof)
		if !setup("Verify", err) || !after("Verify") {
			return
		}
		for _, in := range w.Insts {
			if in.Partial() {
				// before the proof is remembered the partial forest misses most of it: a non-empty
				// result that is kept and must survive every later call (also a second query)
				miss0 := in.MP.GetMissingPositions(gT)
				if !after(in.Cfg.Kind + ".GetMissingPositions") {
					return
				}
				if len(miss0) > 0 {
					c.Count("nonempty_missing_position_results_kept", 1)
				}
				addU(in.Name+".GetMissingPositions(before remembering)", miss0)
				f0 := rec.Before.Forest()
				var others []uint64
				for _, sl := range rec.Before.Live() {
					if h := rec.Before.Leaves[sl]; !in.Rem[h] && len(others) < 3 {
						others = append(others, f0.LeafPos[h])
					}
				}
				if len(others) > 0 {
					miss1 := in.MP.GetMissingPositions(g.U("otherTargets", others))
					if !after(in.Cfg.Kind + ".GetMissingPositions") {
						return
					}
					addU(in.Name+".GetMissingPositions(unremembered leaves)", miss1)
				}
			}
			if in.Partial() && len(rec.DelHashes) > 0 {
				// a caller that applies first and shows the proof only when refused: the partial forest
				// does not hold every deleted leaf yet, so Modify must refuse - and a refused call must
				// leave its arguments alone like any other (added after seeded change C17g)
				unremembered := false
				for _, h := range rec.DelHashes {
					if !in.Rem[h] {
						unremembered = true
					}
				}
				if unremembered {
					if err := in.U.Modify(gL, gDel, proof); err == nil {
						c.Violate(in.Cfg.Kind+".Modify", "setup:accepted-deletion-of-unremembered-leaf", "", fmt.Sprintf("block %d (dels %v)", bi, b.Dels))
						return
					}
					c.Count("refused_modify_calls_before_the_proof_was_shown", 1)
					if !after(in.Cfg.Kind + ".Modify(refused)") {
						return
					}
				}
				if !setup(in.Cfg.Kind+".Verify(remember)", in.MP.Verify(gDel, proof, true)) || !after(in.Cfg.Kind+".Verify(remember)") {
					return
				}
			}
			if !setup(in.Cfg.Kind+".Verify", in.U.Verify(gDel, proof, false)) || !after(in.Cfg.Kind+".Verify") {
				return
			}
			pr, err := in.U.Prove(gDel)
			if !setup(in.Cfg.Kind+".Prove", err) || !after(in.Cfg.Kind+".Prove") {
				return
			}
			addU(in.Name+".Prove.Targets", pr.Targets)
			addH(in.Name+".Prove.Proof", pr.Proof)
			if in.MP != nil {
				miss := in.MP.GetMissingPositions(gT)
				if !after(in.Cfg.Kind + ".GetMissingPositions") {
					return
				}
				addU(in.Name+".GetMissingPositions", miss)
				f0 := rec.Before.Forest()
				var ph []Hash
				for _, p := range miss {
					if nd := f0.Nodes[p]; nd != nil {
						ph = append(ph, nd.Hash)
					}
				}
				gPH := g.H("partialProofHashes", ph)
				if len(rec.DelHashes) > 0 {
					if !setup(in.Cfg.Kind+".VerifyPartialProof", in.MP.VerifyPartialProof(gT, gDel, gPH, false)) || !after(in.Cfg.Kind+".VerifyPartialProof") {
						return
					}
				}
			}
			addH(in.Name+".GetRoots(before)", in.U.GetRoots())
		}
		prevStump := u.Stump{Roots: cloneHashes(w.Stump.Roots), NumLeaves: w.Stump.NumLeaves}
		ud, err := w.Stump.Update(gDel, gA, proof)
		if !setup("Stump.Update", err) || !after("Stump.Update") {
			return
		}
		rec.UD = ud
		addU("UpdateData.ToDestroy", ud.ToDestroy)
		addU("UpdateData.NewDelPos", ud.NewDelPos)
		addH("UpdateData.NewDelHash", ud.NewDelHash)
		addU("UpdateData.NewAddPos", ud.NewAddPos)
		addH("UpdateData.NewAddHash", ud.NewAddHash)
		// light client
		var rem []uint32
		for i := range rec.AddHashes {
			if c.Rng.Intn(2) == 0 {
				rem = append(rem, uint32(i))
			}
		}
		gRem := g.U32("remembers", rem)
		gUD := u.UpdateData{ToDestroy: g.U("updateData.ToDestroy", ud.ToDestroy), PrevNumLeaves: ud.PrevNumLeaves,
			NewDelHash: g.H("updateData.NewDelHash", ud.NewDelHash), NewDelPos: g.U("updateData.NewDelPos", ud.NewDelPos),
			NewAddHash: g.H("updateData.NewAddHash", ud.NewAddHash), NewAddPos: g.U("updateData.NewAddPos", ud.NewAddPos)}
		gCached := g.H("cachedHashes", cachedHashes)
		prevCached := cloneProof(cached)
		prevCachedHashes := cloneHashes(cachedHashes)
		addU("cachedProof.Targets(previous)", cached.Targets)
		addH("cachedProof.Proof(previous)", cached.Proof)
		nh, err := cached.Update(gCached, gA, gT, gRem, gUD)
		if !setup("Proof.Update", err) || !after("Proof.Update") {
			return
		}
		addU("cachedProof.Targets", cached.Targets)
		addH("cachedProof.Proof", cached.Proof)
		addH("cachedHashes(returned)", nh)

		// apply to the instances, undo, re-apply with the same block data
		for _, in := range w.Insts {
			k := in.Cfg.Kind
			if !setup(k+".Modify", in.U.Modify(gL, gDel, proof)) || !after(k+".Modify") {
				return
			}
			addH(in.Name+".GetRoots(after)", in.U.GetRoots())
			if !setup(k+".Undo", in.U.Undo(uint64(len(gL)), proof, gDel, gPrev)) || !after(k+".Undo") {
				return
			}
			if !setup(k+".Modify(again)", in.U.Modify(gL, gDel, proof)) || !after(k+".Modify(again)") {
				return
			}
			if in.MP != nil {
				st := in.MP.GetStump()
				addH(in.Name+".GetStump.Roots", st.Roots)
			}
			if in.Partial() {
				for _, h := range rec.DelHashes {
					delete(in.Rem, h)
				}
				for _, l := range rec.Adds {
					if l.Remember {
						in.Rem[l.Hash] = true
					}
				}
			}
		}
		// cached proof: undo and update again with the same data
		gNH := g.H("cachedHashes(after update)", nh)
		uh, err := cached.Undo(uint64(len(gA)), w.Stump.NumLeaves, gT, gDel, gNH, gUD.ToDestroy, proof)
		_ = prevStump
		if err == nil {
			if !after("Proof.Undo") {
				return
			}
			addH("Proof.Undo(returned hashes)", uh)
		}
		// restore the pre-block cached proof and update again (Undo loses deleted leaves by design)
		cached = prevCached
		gCached2 := g.H("cachedHashes(again)", prevCachedHashes)
		nh2, err := cached.Update(gCached2, gA, gT, gRem, gUD)
		if !setup("Proof.Update(again)", err) || !after("Proof.Update(again)") {
			return
		}
		cachedHashes = nh2
		w.CommitModel(rec)

		// AddProof / GetProofSubset on the new state
		f := w.M.Forest()
		if live := w.M.Live(); len(live) >= 2 {
			as := pickSome(c.Rng, live, 1)
			bs := pickSome(c.Rng, live, 1)
			ha, pa := slotsToProof(w.M, f, as)
			hb, pb := slotsToProof(w.M, f, bs)
			g2 := &gset{}
			gha, ghb := g2.H("AddProof.hashesA", ha), g2.H("AddProof.hashesB", hb)
			gpa := u.Proof{Targets: g2.U("proofA.Targets", pa.Targets), Proof: g2.H("proofA.Proof", pa.Proof)}
			gpb := u.Proof{Targets: g2.U("proofB.Targets", pb.Targets), Proof: g2.H("proofB.Proof", pb.Proof)}
			rh, rp := u.AddProof(gpa, gpb, gha, ghb, f.N)
			c.Eval(1)
			for _, name := range g2.changed() {
				c.Violate("AddProof", "argument-modified", name, fmt.Sprintf("after block %d: A slots %v B slots %v", bi, as, bs))
				bad = true
			}
			addH("AddProof(hashes)", rh)
			addU("AddProof(proof.Targets)", rp.Targets)
			addH("AddProof(proof.Proof)", rp.Proof)
			perm := c.Rng.Perm(len(pa.Targets))
			var wants []uint64
			for _, i := range perm[:1+c.Rng.Intn(len(perm))] {
				wants = append(wants, pa.Targets[i])
			}
			gw := g2.U("GetProofSubset.wants", wants)
			sh, sp, err := u.GetProofSubset(gpa, gha, gw, f.N)
			c.Eval(1)
			for _, name := range g2.changed() {
				c.Violate("GetProofSubset", "argument-modified", name, fmt.Sprintf("after block %d: A slots %v wants %v", bi, as, wants))
				bad = true
			}
			if err == nil {
				addH("GetProofSubset(hashes)", sh)
				addH("GetProofSubset(proof.Proof)", sp.Proof)
			}
			if !after("AddProof/GetProofSubset") {
				return
			}
		}
		if len(canaries) > 120 {
			canaries = canaries[len(canaries)-120:]
		}
		if bad {
			return
		}
	}
	if c.WantSample(c.Suite) {
		c.Sample(c.Suite, map[string]any{"history": s.History, "instances": cfgNames(cfgs), "canaries_live_at_end": len(canaries)})
	}
}
