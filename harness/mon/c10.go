package mon

import (
	"encoding/json"
	"fmt"
	"math/rand"

	"verifharness/core"
	"verifharness/gen"
	rm "verifharness/refmodel"
)

// C10 — position and hash look-ups tell the truth.

func init() {
	core.Register(&core.Monitor{
		ID:    "C10",
		Level: "exploration",
		Rule: "cases = forest scenarios (blocks, undo to random depth, Verify-with-remember, Ingest, Prune) on Pollard, full MapPollards (rotated TotalRows) and partial MapPollards (incl. from-roots); after every operation and for every instance: " +
			"GetLeafPosition/GetLeafHashPositions for every hash of the classes {live leaf, dead leaf, internal node, root, fresh}, GetHash for every position in [0, 2^(rows+1)+8] (plus boundary and 64-bit values), and the tracked-leaf counters, " +
			"all compared with the reference model. An evaluation = one look-up compared. Non-trivial = a state with deleted leaves or after an undo; distinct = distinct (alive pattern, instance configuration, op kind) fingerprints.",
		Assumptions: []string{"SHA-512/256 collision freedom", "reference model correct",
			"a partial instance may return the zero hash for an existing but unstored position; it must never return a wrong non-zero hash"},
		MinDistinct: 100,
		Plan: func(tier string) []core.Suite {
			if tier == "thorough" {
				return []core.Suite{{Name: "full", N: 300000}, {Name: "partial", N: 300000}, {Name: "tall", N: 300, CaseTimeout: 600}}
			}
			return []core.Suite{{Name: "full", N: 5000}, {Name: "partial", N: 5000}, {Name: "tall", N: 6, CaseTimeout: 600}}
		},
		Run: func(c *core.Ctx) {
			c10Check(c, c10Scenario(c))
		},
		Replay: func(c *core.Ctx, raw json.RawMessage) {
			var s fScenario
			if err := json.Unmarshal(raw, &s); err != nil {
				c.Inconclusive("bad scenario")
				return
			}
			c10Check(c, s)
		},
	})
}

func c10Scenario(c *core.Ctx) fScenario {
	tag := uint64(c.Seed)<<32 | uint64(c.Index)
	switch c.Suite {
	case "partial":
		cfgs := []InstCfg{{"mappartial", []uint8{0, 2, 63}[c.Index%3]}, {"mappartial", uint8(c.Rng.Intn(64))}, {"mapfull", []uint8{0, 63, 5}[c.Index%3]}}
		p := gen.Tiny
		p.RememberMode = 1
		s := genForestScenario(c.Rng, tag, cfgs, fGenOpts{Profile: p, Rounds: 2 + c.Rng.Intn(2), Undo: c.Index%2 == 0, PartialOps: true, Reload: c.Index%4 == 3, JunkProofs: c.Index%4 == 1})
		if c.Index%8 == 5 {
			s.LeafMode = "readd"
		}
		return s
	case "tall":
		cfgs := []InstCfg{{Kind: "pollard"}, {"mapfull", 0}, {"mapfull", 63}}
		p := gen.Tall
		p.MaxLeaves = 1500
		return genForestScenario(c.Rng, tag|1<<62, cfgs, fGenOpts{Profile: p, Rounds: 2, Undo: true})
	default:
		cfgs := []InstCfg{{Kind: "pollard"}, {"mapfull", 0}, {"mapfull", 63}, {"mapfull", uint8(c.Index % 64)}}
		p := gen.Small
		if c.Index%2 == 0 {
			p = gen.Tiny
		}
		s := genForestScenario(c.Rng, tag, cfgs, fGenOpts{Profile: p, Rounds: 2 + c.Rng.Intn(3), Undo: true, ForceEmptyRootOverwrite: c.Index%4 == 0})
		if c.Index%8 == 5 {
			s.LeafMode = "readd" // a block re-adds a hash it deletes, or one that died earlier
		}
		return s
	}
}

func c10Check(c *core.Ctx, s fScenario) {
	c.SetScenario(s)
	fresh := uint64(0)
	runForest(c, s, func(site, clause, trigger, detail string) { c.Violate(site, "setup:"+clause, trigger, detail) },
		func(st *fState) {
			if st.Quiet {
				return
			}
			for _, in := range st.W.Insts {
				c10CheckInst(c, st.W, in, st.F, st.When, st.AfterUndo, st.Op.Kind, &fresh)
			}
		})
}

// c10CheckInst checks every look-up of one instance against the model.
func c10CheckInst(c *core.Ctx, w *World, in *Inst, f *rm.Forest, when string, afterUndo bool, opKind string, fresh *uint64) {
	kind := in.Cfg.Kind
	trig := ""
	desc := fmt.Sprintf("%s: %s (N=%d)", when, in.Name, f.N)
	tracked := func(h Hash) bool {
		if _, live := f.LeafPos[h]; !live {
			return false
		}
		if in.Partial() {
			return in.Rem[h]
		}
		return true
	}
	nTracked := 0
	counted := map[Hash]bool{} // a hash can sit in a dead slot and, re-added, in a live one
	var ask []Hash
	var askWant []uint64
	// every leaf ever added: live or dead
	for s, h := range w.M.Leaves {
		c.Eval(1)
		got, ok := in.U.GetLeafPosition(h)
		want, live := f.LeafPos[h]
		tr := tracked(h)
		if tr && !counted[h] {
			counted[h] = true
			nTracked++
		}
		switch {
		case tr && (!ok || got != want):
			c.Violate(kind+".GetLeafPosition", "tracked-live-leaf", trig, fmt.Sprintf("%s: slot %d: got (%d,%v) want (%d,true)", desc, s, got, ok, want))
			return
		case !live && ok:
			c.Violate(kind+".GetLeafPosition", "dead-leaf-found", trig, fmt.Sprintf("%s: dead slot %d found at %d", desc, s, got))
			return
		case live && !tr && ok:
			c.Violate(kind+".GetLeafPosition", "untracked-leaf-found", trig, fmt.Sprintf("%s: live but untracked slot %d found at %d", desc, s, got))
			return
		}
		if len(ask) < 64 {
			ask = append(ask, h)
			if tr {
				askWant = append(askWant, want)
			} else {
				askWant = append(askWant, 0)
			}
		}
	}
	// internal nodes and roots that are internal nodes; fresh hashes
	for _, nd := range f.Nodes {
		if nd.Leaf >= 0 {
			continue
		}
		c.Eval(1)
		if p, ok := in.U.GetLeafPosition(nd.Hash); ok {
			cl := "internal-node-hash-found"
			if nd.IsRoot {
				cl = "internal-root-hash-found"
			}
			c.Violate(kind+".GetLeafPosition", cl, joinTrig(trig, "op="+opKind), fmt.Sprintf("%s: hash of internal node at %d reported as a leaf at %d", desc, nd.Pos, p))
			return
		}
	}
	for i := 0; i < 3; i++ {
		*fresh++
		h := rm.FreshHash(w.Tag, *fresh)
		c.Eval(1)
		if p, ok := in.U.GetLeafPosition(h); ok {
			c.Violate(kind+".GetLeafPosition", "fresh-hash-found", trig, fmt.Sprintf("%s: never-added hash found at %d", desc, p))
			return
		}
		if len(ask) < 70 {
			ask = append(ask, h)
			askWant = append(askWant, 0)
		}
	}
	var zero Hash
	if p, ok := in.U.GetLeafPosition(zero); ok {
		c.Violate(kind+".GetLeafPosition", "zero-hash-found", trig, fmt.Sprintf("%s: the all-zero hash found at %d", desc, p))
		return
	}
	if in.MP != nil && len(ask) > 0 {
		c.Eval(1)
		got := in.MP.GetLeafHashPositions(cloneHashes(ask))
		if !eqU64(got, askWant) {
			c.Violate(kind+".GetLeafHashPositions", "inconsistent-with-GetLeafPosition", trig, fmt.Sprintf("%s: got %v want %v", desc, got, askWant))
			return
		}
	}
	// counters
	c.Eval(1)
	if in.P != nil {
		if len(in.P.NodeMap) != nTracked || int(in.P.NumLeaves-in.P.NumDels) != nTracked {
			c.Violate("pollard.counters", "tracked-count", trig, fmt.Sprintf("%s: len(NodeMap)=%d NumLeaves-NumDels=%d, live leaves %d", desc, len(in.P.NodeMap), in.P.NumLeaves-in.P.NumDels, nTracked))
			return
		}
	} else {
		if in.MP.CachedLeaves.Length() != nTracked {
			extra := ""
			n := 0
			in.MP.CachedLeaves.ForEach(func(k Hash, v uint64) error {
				if !tracked(k) && n < 3 {
					q := rm.Translate(v, in.MP.TotalRows, f.H)
					nd := f.Nodes[q]
					what := "no node"
					if nd != nil && nd.Hash == k && nd.Leaf < 0 {
						what = "an internal node"
					} else if nd != nil && nd.Hash == k {
						what = "an untracked leaf"
					}
					extra += fmt.Sprintf(" [%s at %d is %s]", hs(k), q, what)
					n++
				}
				return nil
			})
			c.Violate(kind+".counters", "tracked-count", joinTrig(trig, "op="+opKind), fmt.Sprintf("%s: CachedLeaves.Length()=%d, tracked live leaves %d%s", desc, in.MP.CachedLeaves.Length(), nTracked, extra))
			return
		}
	}
	// GetHash over positions
	top := uint64(2) << f.H // 2^(h+1)
	var positions []uint64
	if top <= 600 {
		for p := uint64(0); p <= top+8; p++ {
			positions = append(positions, p)
		}
	} else {
		for p := range f.Nodes {
			positions = append(positions, p)
		}
		for i := 0; i < 200; i++ {
			positions = append(positions, uint64(c.Rng.Int63n(int64(top+8))))
		}
		for d := uint64(0); d < 12; d++ {
			positions = append(positions, top-4+d, f.N+d-2)
		}
	}
	positions = append(positions, ^uint64(0), ^uint64(0)-1, 1<<63, 1<<63+1, 1<<40, top*2, top*2+1, top*4-2)
	for _, p := range positions {
		c.Eval(1)
		got := in.U.GetHash(p)
		nd := f.Nodes[p]
		switch {
		case nd != nil && got == nd.Hash:
		case nd != nil && got == zero && in.Partial():
			// existing but (possibly) unstored
		case nd != nil:
			c.Violate(kind+".GetHash", "wrong-hash-for-existing-node", trig, fmt.Sprintf("%s: GetHash(%d)=%s, true hash %s", desc, p, hs(got), hs(nd.Hash)))
			return
		case got != zero:
			where := "inside-rows"
			if p >= top-1 {
				where = "above-top"
			} else if r, k := rm.OffsetOf(p, f.H); (k << r) >= f.N {
				where = "beyond-leaf-count"
			}
			if in.MP != nil && in.MP.TotalRows > f.H {
				// Recorded finding D8: with spare allocated rows GetHash pushes a position above
				// the forest top through its height translation, which for such a position lands
				// on some stored node.  The finding is identified by its exact input/output
				// relation: the answer must be the hash stored at the position that the
				// library's ORIGINAL translation (d8Alias, a transcript of it) maps p to.  Any
				// other non-zero answer is a different violation and is reported.
				where += ",alloc-rows>tree-rows"
				if where == "above-top,alloc-rows>tree-rows" {
					leaf, _ := in.MP.Nodes.Get(d8Alias(p, f.H, in.MP.TotalRows))
					if leaf.Hash != got {
						where = "above-top,not-the-recorded-alias"
					}
				}
			}
			c.ViolateContinue(kind+".GetHash", "nonzero-for-absent-position", joinTrig(trig, where), fmt.Sprintf("%s: GetHash(%d)=%s but no node sits there (%s)", desc, p, hs(got), where))
		}
	}
	if w.M.NumLive() != len(w.M.Leaves) || afterUndo {
		c.Distinct(core.FP(w.M.Alive, in.Name, opKind, afterUndo))
	}
	if c.WantSample("lookup") && len(w.M.Leaves) > 3 {
		c.Sample("lookup", map[string]any{"when": when, "instance": in.Name, "alive": aliveStr(w.M.Alive), "tracked": nTracked, "positions_read": len(positions)})
	}
}

// d8Alias transcribes the unchanged library's translatePos(pos, from, to) (utils.go at the
// pinned commit), including its behaviour for positions outside the 'from' geometry; it is used
// only to recognise the recorded finding D8 by its exact input/output relation.
func d8Alias(pos uint64, from, to uint8) uint64 {
	marker := uint64(1 << from)
	var row uint8
	for row = 0; pos&marker != 0; row++ {
		marker >>= 1
	}
	if row == 0 {
		return pos
	}
	start := func(r, rows uint8) uint64 { return uint64(2<<rows) - (2 << (rows - r)) }
	return pos - start(row, from) + start(row, to)
}

var _ = rand.Int
