package mon

import (
	"encoding/json"
	"fmt"
	"sort"

	u "github.com/utreexo/utreexo"

	"verifharness/core"
	"verifharness/gen"
	rm "verifharness/refmodel"
)

// C15 — the caching schedule names real leaves and never exceeds the memory limit.
// Oracle: the monitor's own ledger slot -> (created block, deleted block).

func c15Plan(tier string) histPlan {
	if tier == "thorough" {
		return histPlan{Enum: gen.EnumParams{MaxAdds: []int{5, 4, 3}}, Rand: 800000, Tall: 120}
	}
	return histPlan{Enum: gen.EnumParams{MaxAdds: []int{4, 3, 2}}, Rand: 15000, Tall: 6}
}

func init() {
	core.Register(&core.Monitor{
		ID:    "C15",
		Level: "exploration",
		Rule: "cases = block histories (enumerated small scope, which contains the 'block empties a tree and its own additions overwrite the empty root' corner, + seeded random + tall) fed to a CachingScheduleTracker via AddBlockSummary(proof.Targets in prover order, numAdds); " +
			"GenerateCachingSchedule(m) for m in {1,2,3,5,#leaves ever}. An evaluation = one generated schedule judged against the ledger slot->(created block, deleted block): every scheduled position is the slot of a leaf created in that block and deleted later, " +
			"no duplicates, ascending, never more than m scheduled leaves alive at a block boundary, complete when m >= #leaves. Non-trivial = history in which some leaf is created and later deleted; distinct = distinct (history shape, m).",
		Assumptions: []string{"the ledger is kept by the monitor while the history is generated; no library code is involved in the expectation"},
		MinDistinct: 100,
		Plan: func(tier string) []core.Suite {
			n := 1
			if tier == "thorough" {
				n = 4
			}
			return append(c15Plan(tier).suites(), core.Suite{Name: "huge", N: n, CaseTimeout: 1800}, core.Suite{Name: "long", N: 40 * n, CaseTimeout: 600})
		},
		Run: func(c *core.Ctx) {
			if c.Suite == "long" {
				// recordings of several hundred blocks over a small forest (added after seeded change
				// C15i, an 8-bit block coordinate): every other suite stops at a few dozen blocks
				tag := uint64(c.Seed)<<32 | uint64(c.Index) | 1<<50
				nb := 258 + c.Rng.Intn(400)
				if c.Tier == "thorough" && c.Index%40 == 7 {
					nb = 65536 + 2 + c.Rng.Intn(40) // ... and one past 2^16 blocks
				}
				h := gen.History{Tag: tag}
				m := &rm.Model{}
				var ctr uint64
				for bi := 0; bi < nb; bi++ {
					var b gen.Block
					if live := m.Live(); len(live) > 0 && c.Rng.Intn(3) == 0 {
						k := 1 + c.Rng.Intn(2)
						c.Rng.Shuffle(len(live), func(i, j int) { live[i], live[j] = live[j], live[i] })
						if k > len(live) {
							k = len(live)
						}
						b.Dels = append([]int(nil), live[:k]...)
					}
					if c.Rng.Intn(4) == 0 || bi == 0 {
						b.Adds = 1 + c.Rng.Intn(2)
					}
					if len(m.Live()) > 12 {
						b.Adds = 0
					}
					gen.ApplyToModel(m, b, tag, &ctr)
					h.Blocks = append(h.Blocks, b)
				}
				c15Check(c, histScenario{History: h})
				return
			}
			if c.Suite == "huge" {
				// more than 2^16 leaves that will be deleted are alive at once, and the limit is larger still
				tag := uint64(c.Seed)<<32 | uint64(c.Index) | 1<<51
				extra := []int{2, 4465, 1, 70000 - 65535}[c.Index%4] + c.Rng.Intn(50)
				h := gen.History{Tag: tag, Blocks: []gen.Block{{Adds: 65535}, {Adds: extra}}}
				n := 65535 + extra
				var dels []int
				keep := c.Rng.Intn(3)
				for sl := 0; sl < n-keep; sl++ {
					dels = append(dels, sl)
				}
				c.Rng.Shuffle(len(dels), func(i, j int) { dels[i], dels[j] = dels[j], dels[i] })
				h.Blocks = append(h.Blocks, gen.Block{Dels: dels, Adds: c.Rng.Intn(3)})
				c15Check(c, histScenario{History: h})
				return
			}
			c15Check(c, histScenario{History: c15Plan(c.Tier).history(c)})
		},
		Replay: func(c *core.Ctx, raw json.RawMessage) {
			s, err := parseHistScenario(raw)
			if err != nil {
				c.Inconclusive("bad scenario")
				return
			}
			c15Check(c, s)
		},
	})
}

func c15Check(c *core.Ctx, s histScenario) {
	c.SetScenario(s)
	h := s.History
	m := &rm.Model{}
	var ctr uint64
	// the size hint of the tracker is only a hint: exact, none, too small
	sel := core.FP(histShape(h)) // deterministic in the history itself (enumerated histories share one tag)
	hint := len(h.Blocks)
	switch sel % 3 {
	case 1:
		hint = 0
	case 2:
		hint = len(h.Blocks) / 2
	}
	cs := u.NewCachingScheduleTracker(hint)
	created := map[int]int{}
	deleted := map[int]int{}
	overwrite := false // some block's additions overwrote an empty root
	sameBlock := false // ... an empty root that the same block created
	// "any recorded sequence of block summaries": every prefix is one.  In half of the histories a
	// schedule is also asked for part-way (after block mid), then recording goes on.
	mid := -1
	if len(h.Blocks) >= 2 && (sel>>8)%2 == 0 {
		mid = 1 + int((sel>>16)%uint64(len(h.Blocks)-1))
	}
	judge := func(nb int, final bool) bool {
		nLeaves := 0
		for sl, cb := range created {
			if cb < nb && sl+1 > nLeaves {
				nLeaves = sl + 1
			}
		}
		qualifying := 0
		for sl, db := range deleted {
			if cb, ok := created[sl]; ok && cb < nb && db < nb {
				qualifying++
			}
		}
		trig := ""
		if overwrite {
			trig = "history-overwrites-empty-root"
			if sameBlock {
				trig = "history-overwrites-empty-root,emptied-in-same-block"
			}
		}
		if !final {
			trig = joinTrig(trig, "schedule-asked-part-way")
		}
		mems := []int{1, 2, 3, 5, nLeaves}
		if !final {
			mems = []int{nLeaves, 2, 1} // different limits in a different order on the same tracker
		}
		if nLeaves == 0 {
			mems = []int{1}
		}
		if nLeaves > 60000 {
			mems = []int{nLeaves + 30000} // the huge suite: a limit above 2^16 (each schedule costs ~20 s)
			if c.Tier == "thorough" {
				mems = append(mems, 65536)
			}
		}
		for _, mem := range mems {
			if mem < 1 {
				continue
			}
			c.Eval(1)
			sch := cs.GenerateCachingSchedule(mem)
			desc := fmt.Sprintf("maxMemory=%d, %d blocks recorded, %d leaves ever, %d created-and-deleted: schedule %v", mem, nb, nLeaves, qualifying, sch)
			if nLeaves > 2000 {
				desc = fmt.Sprintf("maxMemory=%d, %d blocks recorded, %d leaves ever, %d created-and-deleted (schedule too long to print)", mem, nb, nLeaves, qualifying)
			}
			if len(sch) != nb {
				c.Violate("GenerateCachingSchedule", "schedule-length", trig, desc)
				return false
			}
			seen := map[uint64]bool{}
			type life struct{ cb, db int }
			var lives []life
			for bi, ps := range sch {
				if !sort.SliceIsSorted(ps, func(i, j int) bool { return ps[i] < ps[j] }) {
					c.Violate("GenerateCachingSchedule", "not-ascending", trig, fmt.Sprintf("block %d: %s", bi, desc))
					return false
				}
				for _, q := range ps {
					sl := int(q)
					cb, ok := created[sl]
					if !ok || q >= uint64(nLeaves) {
						c.Violate("GenerateCachingSchedule", "not-a-slot", trig, fmt.Sprintf("block %d names position %d which is no insertion slot: %s", bi, q, desc))
						return false
					}
					if cb != bi {
						c.Violate("GenerateCachingSchedule", "wrong-block", trig, fmt.Sprintf("block %d names slot %d which was added in block %d: %s", bi, q, cb, desc))
						return false
					}
					db, ok := deleted[sl]
					if !ok || db >= nb {
						c.Violate("GenerateCachingSchedule", "never-deleted", trig, fmt.Sprintf("block %d names slot %d which is never deleted in a recorded block: %s", bi, q, desc))
						return false
					}
					if seen[q] {
						c.Violate("GenerateCachingSchedule", "duplicate", trig, fmt.Sprintf("slot %d listed twice: %s", q, desc))
						return false
					}
					seen[q] = true
					lives = append(lives, life{cb, db})
				}
			}
			for t := 0; t < nb; t++ {
				n := 0
				for _, l := range lives {
					if l.cb <= t && t < l.db {
						n++
					}
				}
				if n > mem {
					c.Violate("GenerateCachingSchedule", "memory-limit-exceeded", trig, fmt.Sprintf("after block %d, %d scheduled leaves are alive: %s", t, n, desc))
					return false
				}
			}
			if mem >= nLeaves && len(seen) != qualifying {
				c.Violate("GenerateCachingSchedule", "incomplete-with-unbounded-memory", trig, fmt.Sprintf("%d of %d qualifying leaves scheduled: %s", len(seen), qualifying, desc))
				return false
			}
			if qualifying > 0 {
				c.Distinct(core.FP(histShape(h), mem, nb))
			}
			c.Max("max_scheduled_leaves", len(seen))
		}
		if !final {
			c.Count("schedules_asked_part_way_through_the_recording", 1)
		}
		return true
	}
	var delBuf []uint64
	reused := false
	for bi, b := range h.Blocks {
		f := m.Forest()
		var targets []uint64
		for _, sl := range b.Dels {
			targets = append(targets, f.SlotPos[sl])
			deleted[sl] = bi
		}
		before := m.Clone()
		base := len(m.Leaves)
		gen.ApplyToModel(m, b, h.Tag, &ctr)
		for i := 0; i < b.Adds; i++ {
			created[base+i] = bi
		}
		rec := &BlockRec{Blk: b, Before: before, PrevN: uint64(base), After: m}
		t := traits(rec)
		if t.OverwritesEmpty {
			overwrite = true
			if t.EmptiesTree {
				sameBlock = true
			}
		}
		if b.Adds > 65535 {
			return
		}
		if (sel>>24)%2 == 0 {
			// the caller refills ONE deletions buffer for every block (added after seeded change
			// C15h: a tracker that keeps the caller's slice instead of a copy)
			delBuf = append(delBuf[:0], targets...)
			cs.AddBlockSummary(delBuf, uint16(b.Adds))
			reused = true
		} else {
			cs.AddBlockSummary(targets, uint16(b.Adds))
		}
		if bi+1 == mid && len(m.Leaves) <= 2000 {
			if !judge(bi+1, false) {
				return
			}
		}
	}
	nLeaves := len(m.Leaves)
	qualifying := 0
	for sl := range deleted {
		if _, ok := created[sl]; ok {
			qualifying++
		}
	}
	for i := range delBuf {
		delBuf[i] = ^uint64(0) // ... and the caller does what it likes with its buffer afterwards
	}
	if reused {
		c.Count("histories_recorded_through_one_reused_deletions_buffer", 1)
	}
	if !judge(len(h.Blocks), true) {
		return
	}
	if overwrite {
		c.Count("histories_overwriting_empty_roots", 1)
	}
	c.Count("histories", 1)
	if qualifying > 0 && nLeaves <= 2000 && c.WantSample(c.Suite) {
		c.Sample(c.Suite, map[string]any{"history": h, "unbounded_schedule": cs.GenerateCachingSchedule(nLeaves)})
	}
}
