package mon

import (
	"encoding/json"
	"sync"

	"verifharness/core"
	"verifharness/gen"
)

// Shared history suites: "enum" (every history of a small scope), "rand"
// (seeded random, small forests), "tall" (seeded random, tall forests).

type histPlan struct {
	Enum       gen.EnumParams
	Rand, Tall int
}

var enumCache struct {
	sync.Mutex
	m map[string][]gen.History
}

func enumList(p gen.EnumParams) []gen.History {
	k, _ := json.Marshal(p)
	enumCache.Lock()
	defer enumCache.Unlock()
	if enumCache.m == nil {
		enumCache.m = map[string][]gen.History{}
	}
	if l, ok := enumCache.m[string(k)]; ok {
		return l
	}
	l := gen.EnumHistories(p, 0xE0)
	enumCache.m[string(k)] = l
	return l
}

func (hp histPlan) suites() []core.Suite {
	var s []core.Suite
	if len(hp.Enum.MaxAdds) > 0 {
		s = append(s, core.Suite{Name: "enum", N: len(enumList(hp.Enum)), Exhaustive: true})
	}
	if hp.Rand > 0 {
		s = append(s, core.Suite{Name: "rand", N: hp.Rand})
	}
	if hp.Tall > 0 {
		s = append(s, core.Suite{Name: "tall", N: hp.Tall, CaseTimeout: 600})
	}
	return s
}

// history returns the history of the current case.
func (hp histPlan) history(c *core.Ctx) gen.History {
	switch c.Suite {
	case "enum":
		return enumList(hp.Enum)[c.Index]
	case "tall":
		return gen.RandomHistory(c.Rng, gen.Tall, uint64(c.Seed)<<32|uint64(c.Index)|1<<62)
	default:
		p := gen.Small
		if c.Index%3 == 0 {
			p = gen.Tiny
		}
		p.RememberMode = 1
		return gen.RandomHistory(c.Rng, p, uint64(c.Seed)<<32|uint64(c.Index))
	}
}

// histScenario is the replayable form of a history case.
type histScenario struct {
	// Forest, if set, is run first (blocks, undo, remember, prune); History.Blocks then continue from its end state.
	Forest  *fScenario  `json:"forest,omitempty"`
	History gen.History `json:"history"`
	// LeafMode selects adversarial leaf hashes (World.SetLeafMode): "" | "readd" | "prefix".
	LeafMode string    `json:"leaf_mode,omitempty"`
	Cfgs     []InstCfg `json:"cfgs,omitempty"`
	Extra    any       `json:"extra,omitempty"`
}

func parseHistScenario(raw json.RawMessage) (histScenario, error) {
	var s histScenario
	err := json.Unmarshal(raw, &s)
	return s, err
}
