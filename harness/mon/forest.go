package mon

import (
	"bytes"
	"fmt"
	"math/rand"

	u "github.com/utreexo/utreexo"

	"verifharness/core"
	"verifharness/gen"
	rm "verifharness/refmodel"
)

// Forest scenarios: interleavings of blocks, undo, verify-with-remember,
// ingest and prune over a set of forest instances.  Shared by C06, C09, C10.

type fOp struct {
	Kind  string     `json:"kind"` // block | undo | verify | ingest | prune | badmodify | badverify
	Block *gen.Block `json:"block,omitempty"`
	K     int        `json:"k,omitempty"`
	Slots []int      `json:"slots,omitempty"`
	Junk  bool       `json:"junk,omitempty"` // block: the deletion proof carries one surplus trailing hash
}

type fScenario struct {
	Tag         uint64    `json:"tag"`
	Cfgs        []InstCfg `json:"cfgs"`
	FromRootsAt int       `json:"from_roots_at"` // op index before which a NewMapPollardFromRoots(partial) instance joins; -1 = never
	Ops         []fOp     `json:"ops"`
	LeafMode    string    `json:"leaf_mode,omitempty"` // World.SetLeafMode
	Share       bool      `json:"share,omitempty"`     // one block record per block, handed to every call without defensive copies
	// Sparse: the observers make their queries only after about half of the operations (which ones is a
	// function of Tag), so that an answer remembered from an earlier query is not refreshed by the monitor's
	// own curiosity before the state it belongs to has come and gone (round 10, seeded change C13j).
	Sparse bool `json:"sparse,omitempty"`
}

type fGenOpts struct {
	Profile                 gen.Profile
	Rounds                  int // rounds of (blocks, undo)
	Undo                    bool
	PartialOps              bool // verify/ingest/prune ops
	Redo                    bool // an undo may be followed by re-applying the SAME block (same record) before going on
	Reload                  bool // every instance is now and then replaced by what its own serialization restores
	JunkProofs              bool // some blocks' deletion proofs carry a surplus trailing hash (accepted by every verifier)
	ForceEmptyRootOverwrite bool
}

func pickLiveSubset(rng *rand.Rand, m *rm.Model) []int {
	live := m.Live()
	if len(live) == 0 {
		return nil
	}
	rng.Shuffle(len(live), func(i, j int) { live[i], live[j] = live[j], live[i] })
	n := 1 + rng.Intn(len(live))
	if n > 6 && rng.Intn(2) == 0 {
		n = 1 + rng.Intn(6)
	}
	return append([]int(nil), live[:n]...)
}

func genForestScenario(rng *rand.Rand, tag uint64, cfgs []InstCfg, o fGenOpts) fScenario {
	s := fScenario{Tag: tag, Cfgs: cfgs, FromRootsAt: -1}
	m := &rm.Model{}
	var stack []*rm.Model
	var blks []gen.Block // blks[i] = the block applied on top of stack[i]
	var ctr uint64
	// decisions added in round 10 draw from their own stream, so that scenarios they do not touch stay what they were
	aux := rand.New(rand.NewSource(int64(tag*0x9E3779B97F4A7C15 + 0x51ab)))
	s.Sparse = aux.Intn(3) == 0
	addBlock := func(b gen.Block) {
		stack = append(stack, m.Clone())
		blks = append(blks, b)
		gen.ApplyToModel(m, b, tag, &ctr)
		bb := b
		op := fOp{Kind: "block", Block: &bb}
		if o.JunkProofs && len(b.Dels) > 0 && rng.Intn(4) == 0 {
			op.Junk = true
		}
		s.Ops = append(s.Ops, op)
	}
	// fork appends a competing block (chain reorganisation): as many deletions and additions as the block
	// just undone, but other leaves deleted - the two leave forests of the same leaf count and deletion
	// count and, often, different shapes
	fork := func(undone gen.Block) bool {
		if len(undone.Dels) == 0 {
			return false
		}
		var live []int
		for sl, a := range m.Alive {
			if a {
				live = append(live, sl)
			}
		}
		if len(live) <= len(undone.Dels) {
			return false
		}
		aux.Shuffle(len(live), func(i, j int) { live[i], live[j] = live[j], live[i] })
		fb := gen.Block{Dels: append([]int(nil), live[:len(undone.Dels)]...), Adds: undone.Adds}
		for i := 0; i < fb.Adds; i++ {
			fb.Remember = append(fb.Remember, aux.Intn(2) == 0)
		}
		addBlock(fb)
		return true
	}
	for r := 0; r < o.Rounds; r++ {
		nb := 1 + rng.Intn(6)
		for i := 0; i < nb; i++ {
			if o.PartialOps && len(m.Leaves) > 0 {
				switch rng.Intn(10) {
				case 0, 1:
					if sl := pickLiveSubset(rng, m); sl != nil {
						s.Ops = append(s.Ops, fOp{Kind: "verify", Slots: sl})
					}
				case 2:
					if sl := pickLiveSubset(rng, m); sl != nil {
						s.Ops = append(s.Ops, fOp{Kind: "ingest", Slots: sl})
					}
				case 3, 4:
					// prune a random subset of live slots (those not remembered are ignored by Prune)
					if sl := pickLiveSubset(rng, m); sl != nil {
						s.Ops = append(s.Ops, fOp{Kind: "prune", Slots: sl})
					}
				case 6:
					// a proof the forests must refuse although they are asked to remember it (K selects the damage)
					if sl := pickLiveSubset(rng, m); sl != nil {
						if len(sl) > 4 {
							sl = sl[:4]
						}
						s.Ops = append(s.Ops, fOp{Kind: "badverify", Slots: sl, K: rng.Intn(4)})
					}
				case 5:
					// a block the map forests must reject: live leaves followed by a hash that is
					// not in the forest (K selects which); the state must be what it was
					if sl := pickLiveSubset(rng, m); sl != nil {
						if len(sl) > 3 {
							sl = sl[:3]
						}
						s.Ops = append(s.Ops, fOp{Kind: "badmodify", Slots: sl, K: rng.Intn(3)})
					}
				}
			}
			if o.Reload && rng.Intn(5) == 0 {
				s.Ops = append(s.Ops, fOp{Kind: "reload"})
			}
			b := gen.NextBlock(rng, m, o.Profile, len(m.Leaves) == 0)
			if o.ForceEmptyRootOverwrite && i == 0 && r > 0 && len(m.Leaves) > 0 {
				// empty one whole tree and add enough to roll the carry over it
				b.Dels = gen.PickDels(rng, m, 5)
				if b.Adds == 0 {
					b.Adds = 1 + rng.Intn(4)
				}
			}
			addBlock(b)
			if o.Undo && len(b.Dels) > 0 && aux.Intn(5) == 0 {
				// reorganisation of the tip: the block is undone at once and a competing one takes its place
				s.Ops = append(s.Ops, fOp{Kind: "undo", K: 1})
				m = stack[len(stack)-1]
				stack = stack[:len(stack)-1]
				blks = blks[:len(blks)-1]
				fork(b)
			}
		}
		if o.Undo && len(stack) > 0 {
			k := 1 + rng.Intn(len(stack))
			if rng.Intn(5) == 0 {
				k = len(stack)
			}
			// Junk on an undo: full map forests are handed the block proofs WITHOUT their hashes
			// (a full forest rebuilds them from what it stores, as MapPollard.undoDeletion documents)
			s.Ops = append(s.Ops, fOp{Kind: "undo", K: k, Junk: o.JunkProofs && rng.Intn(2) == 0})
			states := append(append([]*rm.Model(nil), stack...), m) // states[i] = model before block i; last = current
			m = stack[len(stack)-k]
			stack = stack[:len(stack)-k]
			undone := blks[len(stack)] // the oldest of the k undone blocks
			blks = blks[:len(stack)]
			forked := aux.Intn(3) == 0 && fork(undone)
			if !forked && o.Redo && rng.Intn(2) == 0 {
				// the block undone last (the oldest of the k) is applied again from its own record,
				// sometimes undone and applied a second time
				n := 1 + rng.Intn(2)
				for j := 0; j < n; j++ {
					s.Ops = append(s.Ops, fOp{Kind: "redo"})
					if j < n-1 {
						s.Ops = append(s.Ops, fOp{Kind: "undo", K: 1})
					}
				}
				stack = append(stack, m)
				blks = append(blks, undone)
				m = states[len(stack)].Clone()
			}
		}
	}
	// closing stretch (redo on another branch)
	for i := 0; i < 1+rng.Intn(3); i++ {
		addBlock(gen.NextBlock(rng, m, o.Profile, len(m.Leaves) == 0))
	}
	if o.PartialOps && rng.Intn(2) == 0 {
		// a from-roots instance joins somewhere after the first few ops
		n := len(s.Ops)
		if n > 2 {
			s.FromRootsAt = 1 + rng.Intn(n-1)
		}
	}
	return s
}

// fState is what observers see after each op.
type fState struct {
	W       *World
	F       *rm.Forest
	OpIndex int
	Op      fOp
	When    string
	// undo bookkeeping
	AfterUndo bool // at least one undo has happened so far
	JustUndid int  // number of blocks undone by this op
	LastRec   *BlockRec
	Failed    bool
	TouchedBy map[*Inst]bool // instances the op applied to
	// Quiet: a sparse scenario asks the observers to do their bookkeeping but make no query after this op
	Quiet bool
}

type fObserver func(st *fState)

type fSnap struct {
	before *rm.Model
	rec    *BlockRec
	stump  u.Stump
}

// runForest executes the scenario.  setupFail reports a failure of a
// library call on honest input (site, clause, trigger, detail).
func runForest(c *core.Ctx, s fScenario, setupFail failFn, obs fObserver) *World {
	w := NewWorld(s.Tag, s.Cfgs)
	w.SetLeafMode(s.LeafMode)
	w.Shared = s.Share
	if s.LeafMode != "" {
		c.Count("scenarios_with_leaf_mode_"+s.LeafMode, 1)
	}
	if s.Share {
		c.Count("scenarios_without_defensive_copies", 1)
	}
	var snaps []fSnap
	var lastUndone *fSnap // the block undone most recently, while nothing has been applied since
	st := &fState{W: w}
	quietRng := rand.New(rand.NewSource(int64(s.Tag*0x9E3779B97F4A7C15 + 0x9e7)))
	if s.Sparse {
		c.Count("scenarios_with_sparse_observation", 1)
	}
	slotsToHashes := func(slots []int) []Hash {
		var out []Hash
		for _, sl := range slots {
			if sl < len(w.M.Leaves) && w.M.Alive[sl] {
				out = append(out, w.M.Leaves[sl])
			}
		}
		return out
	}
	for oi, op := range s.Ops {
		if s.FromRootsAt == oi {
			f := w.M.Forest()
			mp := u.NewMapPollardFromRoots(cloneHashes(f.Roots), f.N, false)
			in := &Inst{Cfg: InstCfg{Kind: "mappartial", Rows: 63}, Name: "mappartial/fromroots", MP: &mp, U: &mp, Rem: map[Hash]bool{}}
			w.Insts = append(w.Insts, in)
			c.Count("from_roots_instances", 1)
		}
		st.OpIndex, st.Op, st.JustUndid, st.LastRec = oi, op, 0, nil
		st.When = fmt.Sprintf("after op %d (%s)", oi, op.Kind)
		failed := false
		fail := func(site, clause, trigger, detail string) {
			failed = true
			setupFail(site, clause, trigger, fmt.Sprintf("op %d (%s): %s", oi, op.Kind, detail))
		}
		switch op.Kind {
		case "block":
			rec := w.PrepareBlock(*op.Block)
			if op.Junk && len(rec.DelHashes) > 0 {
				var junk Hash
				junk[0], junk[1], junk[31] = 0xEE, byte(oi), 1
				rec.Proof.Proof = append(cloneHashes(rec.Proof.Proof), junk)
				c.Count("blocks_whose_proof_carries_a_surplus_hash", 1)
			}
			sn := fSnap{before: rec.Before, rec: rec, stump: u.Stump{Roots: cloneHashes(w.Stump.Roots), NumLeaves: w.Stump.NumLeaves}}
			w.ApplyToStump(rec, fail)
			for _, in := range w.Insts {
				ApplyToInst(in, rec, fail)
			}
			w.CommitModel(rec)
			snaps = append(snaps, sn)
			lastUndone = nil
			st.LastRec = rec
			countTraits(c, traits(rec))
		case "reload":
			// a serialization round trip part-way: work continues on the restored instances
			for _, in := range w.Insts {
				var buf bytes.Buffer
				if _, err := writeInst(in, &buf); err != nil {
					fail(writeSite(in), "reload-write-error", "", fmt.Sprintf("%s: %v", in.Name, err))
					continue
				}
				r, _, err := restoreInst(in, bytes.NewReader(buf.Bytes()))
				if err != nil {
					fail(restoreSite(in), "reload-restore-error", "", fmt.Sprintf("%s: %v", in.Name, err))
					continue
				}
				in.P, in.MP, in.U = r.P, r.MP, r.U
			}
			c.Count("reloads_from_own_serialization", 1)
		case "redo":
			// the block that was undone last is applied again from the very same record
			if lastUndone == nil {
				continue
			}
			sn := *lastUndone
			rec := sn.rec
			w.ApplyToStump(rec, fail)
			for _, in := range w.Insts {
				ApplyToInst(in, rec, fail)
			}
			w.M = rec.After.Clone()
			w.Recs = append(w.Recs, rec)
			snaps = append(snaps, sn)
			lastUndone = nil
			st.LastRec = rec
			c.Count("blocks_reapplied_from_their_own_record_after_undo", 1)
		case "undo":
			for i := 0; i < op.K && len(snaps) > 0; i++ {
				sn := snaps[len(snaps)-1]
				snaps = snaps[:len(snaps)-1]
				rec := sn.rec
				for _, in := range w.Insts {
					upr := rec.pr(rec.Proof)
					if op.Junk && in.Cfg.Kind == "mapfull" && len(upr.Proof) > 0 {
						upr = u.Proof{Targets: cloneU64(rec.Proof.Targets)}
						c.Count("full_forest_undos_without_proof_hashes", 1)
					}
					err := in.U.Undo(uint64(len(rec.Adds)), upr, rec.hs(rec.DelHashes), rec.hs(rec.PrevRoots))
					if err != nil {
						fail(in.Cfg.Kind+".Undo", "error-on-honest-undo", "", fmt.Sprintf("%s: %v", in.Name, err))
						continue
					}
					if in.Partial() {
						for _, h := range rec.AddHashes {
							delete(in.Rem, h)
						}
						for _, h := range rec.DelHashes {
							in.Rem[h] = true
						}
					}
				}
				w.Stump = u.Stump{Roots: cloneHashes(sn.stump.Roots), NumLeaves: sn.stump.NumLeaves} // Stump.Update writes its roots in place
				w.M = sn.before.Clone()
				w.Recs = w.Recs[:len(w.Recs)-1]
				st.JustUndid++
				st.LastRec = rec
				snc := sn
				lastUndone = &snc
			}
			st.AfterUndo = true
			c.Max("max_undo_depth", st.JustUndid)
			if len(w.M.Leaves) == 0 && st.JustUndid > 0 {
				c.Count("undos_to_empty_accumulator", 1)
			}
		case "verify", "ingest":
			hashes := slotsToHashes(op.Slots)
			if len(hashes) == 0 {
				continue
			}
			f := w.M.Forest()
			pr, _ := f.ProofForHashes(hashes)
			for _, in := range w.Insts {
				if in.MP == nil && op.Kind == "ingest" {
					continue
				}
				var err error
				if op.Kind == "verify" {
					err = in.U.Verify(cloneHashes(hashes), cloneProof(pr), true)
				} else {
					err = in.MP.Ingest(cloneHashes(hashes), cloneProof(pr))
				}
				if err != nil {
					fail(in.Cfg.Kind+"."+opName(op.Kind), "error-on-honest-proof", "", fmt.Sprintf("%s: %v", in.Name, err))
					continue
				}
				if in.Partial() {
					for _, h := range hashes {
						in.Rem[h] = true
					}
				}
			}
			c.Count("ops_"+op.Kind, 1)
		case "badverify":
			hashes := slotsToHashes(op.Slots)
			if len(hashes) == 0 {
				continue
			}
			f := w.M.Forest()
			pr, _ := f.ProofForHashes(hashes)
			dh := cloneHashes(hashes)
			bad := cloneProof(pr)
			switch {
			case op.K == 0 || len(bad.Proof) == 0: // a wrong leaf hash
				dh[oi%len(dh)] = rm.FreshHash(s.Tag, uint64(oi)+3<<20)
			case op.K == 1: // a damaged proof hash
				bad.Proof[oi%len(bad.Proof)][oi%32] ^= 0x40
			case op.K == 2: // a missing proof hash
				bad.Proof = bad.Proof[:len(bad.Proof)-1]
			default: // a true hash claimed at its sibling's position
				bad.Targets[oi%len(bad.Targets)] ^= 1
			}
			if err, stuck := stepGuard(f.H, len(bad.Targets), func() error {
				_, e := u.Verify(w.Stump, cloneHashes(dh), cloneProof(bad))
				return e
			}); err == nil || stuck {
				if stuck {
					c.Count("refused_verify_calls_cut_off_by_the_step_budget", 1)
				}
				continue // the damage happens to leave a valid proof (e.g. the sibling is a target too)
			}
			for _, in := range w.Insts {
				err, stuck := stepGuard(f.H, len(bad.Targets), func() error { return in.U.Verify(cloneHashes(dh), cloneProof(bad), true) })
				if stuck {
					c.Count("refused_verify_calls_cut_off_by_the_step_budget", 1)
					continue
				}
				if err == nil {
					fail(in.Cfg.Kind+".Verify(remember)", "accepted-a-proof-the-stand-alone-verifier-rejects", "", fmt.Sprintf("%s: hashes %s %s", in.Name, hashesStr(dh), proofStr(bad)))
				}
				if in.MP != nil {
					// the same through the partial-proof entry point, with whatever it reports missing
					miss := in.MP.GetMissingPositions(cloneU64(bad.Targets))
					var ph []Hash
					for _, p := range miss {
						if nd := f.Nodes[p]; nd != nil {
							ph = append(ph, nd.Hash)
						} else {
							ph = append(ph, rm.FreshHash(s.Tag, p))
						}
					}
					if op.K == 0 || op.K == 3 { // the damage is in the claim itself, so this call must be refused too
						if err, stuck := stepGuard(f.H, len(bad.Targets), func() error {
							return in.MP.VerifyPartialProof(cloneU64(bad.Targets), cloneHashes(dh), ph, true)
						}); err == nil && !stuck {
							if ok, _ := claimTrue(f, claim{Hashes: dh, Targets: bad.Targets}); !ok {
								fail(in.Cfg.Kind+".VerifyPartialProof(remember)", "accepted-a-false-claim", "", fmt.Sprintf("%s: hashes %s targets %v", in.Name, hashesStr(dh), bad.Targets))
							}
						}
					}
				}
			}
			c.Count("ops_refused_verify_remember", 1)
		case "badmodify":
			hashes := slotsToHashes(op.Slots)
			if len(hashes) == 0 {
				continue
			}
			f := w.M.Forest()
			for _, in := range w.Insts {
				if in.MP == nil {
					continue // Pollard.Modify does not look at the hashes; it is documented to trust its caller
				}
				dh := cloneHashes(hashes)
				if in.Partial() {
					// tracked leaves first, so that the rejection comes after some of the batch was looked at
					var tr, un []Hash
					for _, h := range dh {
						if in.Rem[h] {
							tr = append(tr, h)
						} else {
							un = append(un, h)
						}
					}
					dh = append(tr, un...)
				}
				pr, _ := f.ProofForHashes(dh)
				var bogus Hash
				switch op.K {
				case 0:
					bogus = rm.FreshHash(s.Tag, uint64(oi))
				case 1: // a dead leaf, if any
					bogus = rm.FreshHash(s.Tag, uint64(oi)+1<<20)
					for sl, a := range w.M.Alive {
						if _, liveAgain := f.LeafPos[w.M.Leaves[sl]]; !a && !liveAgain {
							bogus = w.M.Leaves[sl]
							break
						}
					}
				default: // an internal node's hash
					bogus = rm.FreshHash(s.Tag, uint64(oi)+2<<20)
					for pos := uint64(0); pos < uint64(2)<<f.H; pos++ { // lowest internal node (deterministic)
						if nd := f.Nodes[pos]; nd != nil && nd.Leaf < 0 {
							bogus = nd.Hash
							break
						}
					}
				}
				dh = append(dh, bogus)
				err := in.MP.Modify(nil, dh, cloneProof(pr))
				if err == nil {
					fail(in.Cfg.Kind+".Modify", "accepted-deletion-of-absent-hash", "", fmt.Sprintf("%s: Modify deleting %s (the last one is not in the forest) with a proof for the others returned nil", in.Name, hashesStr(dh)))
				}
			}
			c.Count("ops_rejected_modify", 1)
		case "prune":
			hashes := slotsToHashes(op.Slots)
			for _, in := range w.Insts {
				if in.MP == nil {
					continue
				}
				if err := in.MP.Prune(cloneHashes(hashes)); err != nil {
					fail(in.Cfg.Kind+".Prune", "error", "", fmt.Sprintf("%s: %v", in.Name, err))
					continue
				}
				if in.Partial() {
					for _, h := range hashes {
						delete(in.Rem, h)
					}
				}
			}
			c.Count("ops_prune", 1)
		}
		st.Failed = failed
		if failed {
			return w
		}
		st.F = w.M.Forest()
		st.Quiet = s.Sparse && oi != len(s.Ops)-1 && (quietRng.Intn(2) == 0 || (op.Kind == "undo" && quietRng.Intn(2) == 0))
		if st.Quiet {
			c.Count("operations_left_unobserved_in_sparse_scenarios", 1)
		}
		if op.Kind == "block" && oi > 0 && s.Ops[oi-1].Kind == "undo" {
			c.Count("blocks_applied_right_after_an_undo", 1)
		}
		if obs != nil {
			obs(st)
		}
		if c.CaseViolations() > 0 {
			return w
		}
	}
	return w
}

func opName(k string) string {
	switch k {
	case "verify":
		return "Verify(remember)"
	case "ingest":
		return "Ingest"
	}
	return k
}

func opsShape(s fScenario) []int {
	var out []int
	for _, op := range s.Ops {
		switch op.Kind {
		case "block":
			out = append(out, -1, op.Block.Adds)
			out = append(out, sortedInts(op.Block.Dels)...)
		case "undo":
			out = append(out, -2, op.K)
		default:
			out = append(out, -3-len(op.Kind))
			out = append(out, sortedInts(op.Slots)...)
		}
	}
	return out
}
