package mon

import (
	"bytes"
	"encoding/json"
	"fmt"
	"sync"

	u "github.com/utreexo/utreexo"

	"verifharness/core"
	"verifharness/gen"
	rm "verifharness/refmodel"
)

// C03 — verification is sound: an accepted proof only states true facts.
//
// Oracle: the reference model's position -> node map.  It is deliberately not
// a re-implementation of Verify: a claim is true iff for every i the model has
// a node at targets[i] whose hash is hashes[i].

type c03Scenario struct {
	History gen.History `json:"history"`
	UpTo    int         `json:"up_to,omitempty"`
	Forest  *fScenario  `json:"forest,omitempty"` // suite 'undo': ops incl. undo; the claim is judged after op OpIndex
	OpIndex int         `json:"op_index,omitempty"`
	Cfg     *InstCfg    `json:"cfg,omitempty"`
	Entry   string      `json:"entry,omitempty"`
	Claim   claimJSON   `json:"claim"`
	// PartialFromMissing: the proof hashes of a VerifyPartialProof call are in Claim.Proof already.
}

type c03Params struct {
	MaxN     int // exhaustive alphabet: forests of 1..MaxN leaves, every alive pattern
	L1, L2   int // max proof length for one / two targets
	L2Big    int // max proof length for two targets when N == MaxN (keeps quick quick)
	Mut      int // seeded histories for structured mutation
	PerState int
	Undo     int // seeded block/undo/remember/prune interleavings
}

func c03P(tier string) c03Params {
	if tier == "thorough" {
		return c03Params{MaxN: 7, L1: 4, L2: 2, L2Big: 2, Mut: 60000, PerState: 60, Undo: 40000}
	}
	return c03Params{MaxN: 7, L1: 3, L2: 2, L2Big: 1, Mut: 1500, PerState: 40, Undo: 1200}
}

// alphaCase is one (state, first target) cell of the exhaustive alphabet.
type alphaCase struct {
	N    int
	Mask uint32 // alive pattern
	T1   uint64
}

var alphaCache struct {
	sync.Mutex
	m map[int][]alphaCase
}

func alphaCases(maxN int) []alphaCase {
	alphaCache.Lock()
	defer alphaCache.Unlock()
	if alphaCache.m == nil {
		alphaCache.m = map[int][]alphaCase{}
	}
	if l, ok := alphaCache.m[maxN]; ok {
		return l
	}
	var out []alphaCase
	for n := 0; n <= maxN; n++ { // n = 0: the empty accumulator, where every claim is false
		h := rm.Rows(uint64(n))
		npos := (uint64(1) << (h + 1)) + 3
		for mask := uint32(0); mask < 1<<uint(n); mask++ {
			for t := uint64(0); t < npos; t++ {
				out = append(out, alphaCase{n, mask, t})
			}
		}
	}
	alphaCache.m[maxN] = out
	return out
}

func init() {
	core.Register(&core.Monitor{
		ID:    "C03",
		Level: "exploration",
		Rule: "suite 'alpha' (exhaustive): every forest of 0..7 leaves with every alive pattern; every claim of one or two targets over all positions 0..2^(rows+1)+2 (so duplicates, nested pairs, absent and out-of-forest positions occur), each hash from {true hash at the target, hash of its sibling position, each non-zero root hash, one fresh value}, " +
			"every proof up to the tier's length over {every node hash, one fresh value, the zero hash}; handed to Verify and Pollard.Verify. Suite 'mut': seeded histories; at each state structured mutants of honest proofs (swap/replace/duplicate/nest targets, swap/replace hashes, flip/drop/insert/duplicate/permute proof hashes) and alphabet claims, " +
			"handed to Verify, Pollard.Verify, MapPollard.Verify (full/partial, several TotalRows) and MapPollard.VerifyPartialProof (with the claim's proof hashes and with the true hashes at the positions GetMissingPositions reports). " +
			"Suite 'undo': interleavings of blocks, Undo (to any depth), Verify(remember), Ingest and Prune; after every operation the same claim generators run, plus honest claims of EARLIER states (true before an undo or a block, possibly false now). An evaluation = one verifier call. " +
			"Refuted by an accepted claim (all hashes non-zero) for which the reference model has no node at some claimed position or a node with a different hash. Non-trivial = accepted claim, or rejected claim that names at least one true (hash,position) pair; distinct = distinct (leaf count, alive pattern, targets, hash classes, proof length).",
		Assumptions: []string{"SHA-512/256 collision freedom", "reference model correct", "claims containing a zero target hash are outside the statement and are not judged"},
		MinDistinct: 1000,
		Plan: func(tier string) []core.Suite {
			p := c03P(tier)
			return []core.Suite{{Name: "alpha", N: len(alphaCases(p.MaxN)), Exhaustive: true}, {Name: "mut", N: p.Mut}, {Name: "undo", N: p.Undo}}
		},
		Run: func(c *core.Ctx) {
			switch c.Suite {
			case "alpha":
				c03Alpha(c)
			case "undo":
				c03Undo(c)
			default:
				c03Mut(c)
			}
		},
		Replay: c03Replay,
	})
}

// c03Trigger explains an accepted false claim (used to tell known defects apart).
func c03Trigger(f *rm.Forest, in *Inst, cl claim, bad int) string {
	seen := map[uint64]bool{}
	for _, t := range cl.Targets {
		if seen[t] {
			return "duplicate-target"
		}
		seen[t] = true
	}
	if in != nil && in.MP != nil && in.MP.TotalRows != rm.Rows(f.N) && in.MP.TotalRows < 64 {
		// The map forest reads a target >= 2^TotalRows as a position in its
		// allocated (TotalRows) geometry.  The explanation only holds if the
		// claim is true once such targets are translated to the forest's own
		// coordinates.
		tr := cl.clone()
		aliased := false
		for i, t := range tr.Targets {
			if t >= uint64(1)<<in.MP.TotalRows {
				row, k := rm.OffsetOf(t, in.MP.TotalRows)
				if row <= rm.Rows(f.N) {
					tr.Targets[i] = rm.Pos(row, k, rm.Rows(f.N))
					aliased = true
				}
			}
		}
		if aliased {
			if ok, _ := claimTrue(f, tr); ok {
				return "target-in-allocated-rows-coordinates"
			}
		}
	}
	if hasZero(cl.Proof) {
		return "zero-proof-hash"
	}
	if bad >= 0 && bad < len(cl.Targets) {
		// is the hash a true node hash elsewhere?
		for _, nd := range f.Nodes {
			if nd.Hash == cl.Hashes[bad] {
				ti := f.TreeOf(cl.Targets[bad])
				if ti >= 0 && ti != nd.Tree {
					return "hash-belongs-to-another-tree"
				}
				return "hash-belongs-to-another-position"
			}
		}
		return "hash-is-no-node"
	}
	return "other"
}

type c03Verifier struct {
	site  string // API call (first part of the violation key)
	entry string // site plus "(remember)" for the remembering variants: counters, scenarios, replay
	in    *Inst
	call  func(cl claim) error
}

func (v c03Verifier) name() string {
	if v.entry != "" {
		return v.entry
	}
	return v.site
}

// c03Judge calls one verifier and judges an acceptance.
func c03Judge(c *core.Ctx, f *rm.Forest, v c03Verifier, cl claim, setScn func()) (accepted bool) {
	c.Eval(1)
	err, stuck := c03Guarded(v, cl, rm.Rows(f.N))
	if stuck {
		// non-termination is C04's subject; for soundness a verifier that
		// does not return has not accepted anything
		c.Count("verifier_calls_cut_off_by_the_step_budget", 1)
		if c.Res.Counters["verifier_calls_cut_off_by_the_step_budget"] == 1 {
			c.Inconclusive(v.site + " exceeded the calculateHashes step budget (see C04); treated as not accepted")
		}
		return false
	}
	if err != nil {
		return false
	}
	if len(cl.Targets) == 0 || hasZero(cl.Hashes) {
		return true
	}
	ok, bad := claimTrue(f, cl)
	if ok {
		c.Count("accepted_true_claims", 1)
		return true
	}
	setScn()
	trig := c03Trigger(f, v.in, cl, bad)
	what := ""
	if bad >= 0 {
		nd := f.Nodes[cl.Targets[bad]]
		if nd == nil {
			what = fmt.Sprintf("claims hash %s at position %d, where the forest has no node", hs(cl.Hashes[bad]), cl.Targets[bad])
		} else {
			what = fmt.Sprintf("claims hash %s at position %d, where the forest has %s", hs(cl.Hashes[bad]), cl.Targets[bad], hs(nd.Hash))
		}
	}
	c.ViolateContinue(v.site, "accepted-false-claim", trig, fmt.Sprintf("%s accepted a false claim on a forest of %d leaves (roots %s): targets=%v hashes=%s proof=%s: %s",
		v.name(), f.N, hashesStr(f.Roots), cl.Targets, hashesStr(cl.Hashes), hashesStr(cl.Proof), what))
	return true
}

// c03Guarded calls the verifier under C04's logical step budget so that a
// non-terminating verifier cannot stall this check.
func c03Guarded(v c03Verifier, cl claim, rows uint8) (err error, stuck bool) {
	c04InstallHook()
	c04Steps = 0
	c04Limit = 4 * (int(rows) + 3) * (len(cl.Targets) + 2)
	defer func() {
		c04Limit = 0
		if r := recover(); r != nil {
			if _, ok := r.(stepBudgetExceeded); ok {
				stuck = true
				return
			}
			panic(r)
		}
	}()
	return v.call(cl), false
}

func mkProof(cl claim) u.Proof {
	return u.Proof{Targets: cloneU64(cl.Targets), Proof: cloneHashes(cl.Proof)}
}

func stumpVerifier(stump u.Stump) c03Verifier {
	return c03Verifier{site: "Verify", call: func(cl claim) error {
		_, e := u.Verify(stump, cl.Hashes, u.Proof{Targets: cl.Targets, Proof: cl.Proof})
		return e
	}}
}

func instVerifier(in *Inst) c03Verifier {
	return c03Verifier{site: in.Cfg.Kind + ".Verify", in: in, call: func(cl claim) error {
		return in.U.Verify(cl.Hashes, u.Proof{Targets: cl.Targets, Proof: cl.Proof}, false)
	}}
}

func partialVerifier(in *Inst) c03Verifier {
	return c03Verifier{site: in.Cfg.Kind + ".VerifyPartialProof", in: in, call: func(cl claim) error {
		return in.MP.VerifyPartialProof(cl.Targets, cl.Hashes, cl.Proof, false)
	}}
}

// ---------------------------------------------------------------------------
// exhaustive alphabet

func alphaHistory(n int, mask uint32) gen.History {
	h := gen.History{Tag: 0xA1FA}
	if n > 0 {
		h.Blocks = []gen.Block{{Adds: n}}
	}
	var dels []int
	for i := 0; i < n; i++ {
		if mask>>uint(i)&1 == 0 {
			dels = append(dels, i)
		}
	}
	if len(dels) > 0 {
		h.Blocks = append(h.Blocks, gen.Block{Dels: dels})
	}
	return h
}

func dedupHashes(in []Hash) []Hash {
	var out []Hash
	seen := map[Hash]bool{}
	for _, h := range in {
		if !seen[h] {
			seen[h] = true
			out = append(out, h)
		}
	}
	return out
}

func c03Alpha(c *core.Ctx) {
	p := c03P(c.Tier)
	ac := alphaCases(p.MaxN)[c.Index]
	hist := alphaHistory(ac.N, ac.Mask)
	w := NewWorld(hist.Tag, []InstCfg{{Kind: "pollard"}})
	fail := func(site, clause, trigger, detail string) { c.Violate(site, "setup:"+clause, trigger, detail) }
	for _, b := range hist.Blocks {
		if _, ok := w.ApplyBlock(b, fail); !ok {
			return
		}
	}
	f := w.M.Forest()
	vs := []c03Verifier{stumpVerifier(w.Stump), instVerifier(w.Insts[0])}
	fresh1 := rm.FreshHash(0xA1FA, 1)
	fresh2 := rm.FreshHash(0xA1FA, 2)
	npos := (uint64(1) << (f.H + 1)) + 3
	hashesAt := func(t uint64) []Hash {
		var hs_ []Hash
		if nd := f.Nodes[t]; nd != nil {
			hs_ = append(hs_, nd.Hash)
			near := nd.Hash // equal to the true hash in all but the last bit
			near[31] ^= 1
			hs_ = append(hs_, near)
		}
		if nd := f.Nodes[t^1]; nd != nil {
			hs_ = append(hs_, nd.Hash)
		}
		for _, r := range f.Roots {
			if r != rm.Zero {
				hs_ = append(hs_, r)
			}
		}
		hs_ = append(hs_, fresh1)
		return dedupHashes(hs_)
	}
	var alpha []Hash
	for _, nd := range f.Nodes {
		alpha = append(alpha, nd.Hash)
	}
	sortHashes(alpha)
	alpha = append(dedupHashes(alpha), fresh2, rm.Zero)

	cl := claim{Kind: "alpha"}
	accepted, judged := 0, 0
	run := func() {
		for _, v := range vs {
			judged++
			if c03Judge(c, f, v, cl, func() {
				c.SetScenario(c03Scenario{History: hist, Entry: v.name(), Claim: cl.JSON()})
			}) {
				accepted++
				c.Distinct(core.FP(ac.N, int(ac.Mask), cl.Targets, len(cl.Proof), hashClass(f, cl)))
			}
		}
	}
	// all proofs up to length L over alpha, in place
	var proofs func(depth, L int)
	proofs = func(depth, L int) {
		cl.Proof = cl.Proof[:depth]
		run()
		if depth == L {
			return
		}
		for _, a := range alpha {
			cl.Proof = append(cl.Proof[:depth], a)
			proofs(depth+1, L)
		}
		cl.Proof = cl.Proof[:depth]
	}
	cl.Proof = make([]Hash, 0, 8)
	// one target
	cl.Targets = []uint64{ac.T1}
	cl.Hashes = []Hash{{}}
	for _, h1 := range hashesAt(ac.T1) {
		cl.Hashes[0] = h1
		proofs(0, p.L1)
	}
	// two targets
	l2 := p.L2
	if ac.N == p.MaxN {
		l2 = p.L2Big
	}
	cl.Targets = []uint64{ac.T1, 0}
	cl.Hashes = []Hash{{}, {}}
	for t2 := uint64(0); t2 < npos; t2++ {
		cl.Targets[1] = t2
		for _, h1 := range hashesAt(ac.T1) {
			for _, h2 := range hashesAt(t2) {
				cl.Hashes[0], cl.Hashes[1] = h1, h2
				proofs(0, l2)
			}
		}
	}
	c.Count("alpha_claims_judged", judged)
	c.Count("alpha_claims_accepted", accepted)
	if accepted > 0 && c.WantSample("alpha") {
		c.Sample("alpha", map[string]any{"leaves": ac.N, "alive": aliveStr(w.M.Alive), "first_target": ac.T1, "verifier_calls": judged, "accepted": accepted})
	}
}

func sortHashes(hs_ []Hash) {
	for i := 1; i < len(hs_); i++ {
		for j := i; j > 0 && string(hs_[j][:]) < string(hs_[j-1][:]); j-- {
			hs_[j], hs_[j-1] = hs_[j-1], hs_[j]
		}
	}
}

// hashClass summarises which claimed pairs are true (for fingerprints).
func hashClass(f *rm.Forest, cl claim) []bool {
	out := make([]bool, len(cl.Targets))
	for i, t := range cl.Targets {
		if i < len(cl.Hashes) {
			nd := f.Nodes[t]
			out[i] = nd != nil && nd.Hash == cl.Hashes[i]
		}
	}
	return out
}

// ---------------------------------------------------------------------------
// structured mutation on seeded histories

func c03Verifiers(w *World) []c03Verifier {
	vs := []c03Verifier{stumpVerifier(w.Stump)}
	for _, in := range w.Insts {
		vs = append(vs, instVerifier(in))
		if in.MP != nil {
			vs = append(vs, partialVerifier(in))
		}
	}
	// The same two map-forest entry points asked to REMEMBER what they verify (added after seeded
	// change C03g: a shortcut taken only with remember=true).  They run on a throw-away copy of
	// the forest, restored once per state from its own bytes, so that whatever an accepted claim
	// makes them store stays out of the history; soundness is judged exactly as for the others
	// (the copy has the same roots, and a claim is true or false of the roots).
	for _, in := range w.Insts {
		if in.MP == nil {
			continue
		}
		var buf bytes.Buffer
		if _, err := in.MP.Write(&buf); err != nil {
			continue
		}
		m2 := u.NewMapPollard(in.MP.Full)
		if _, err := m2.Read(&buf); err != nil {
			continue
		}
		cp := &Inst{Cfg: in.Cfg, Name: in.Name + "(copy)", MP: &m2, U: &m2, Rem: map[Hash]bool{}}
		vs = append(vs, c03Verifier{site: cp.Cfg.Kind + ".Verify", entry: cp.Cfg.Kind + ".Verify(remember)", in: cp, call: func(cl claim) error {
			return cp.MP.Verify(cloneHashes(cl.Hashes), mkProof(cl), true)
		}})
		vs = append(vs, c03Verifier{site: cp.Cfg.Kind + ".VerifyPartialProof", entry: cp.Cfg.Kind + ".VerifyPartialProof(remember)", in: cp, call: func(cl claim) error {
			return cp.MP.VerifyPartialProof(cloneU64(cl.Targets), cloneHashes(cl.Hashes), cloneHashes(cl.Proof), true)
		}})
	}
	return vs
}

func c03Mut(c *core.Ctx) {
	p := c03P(c.Tier)
	prof := gen.Small
	if c.Index%3 == 0 {
		prof = gen.Tiny
	}
	prof.RememberMode = 1
	h := gen.RandomHistory(c.Rng, prof, uint64(c.Seed)<<32|uint64(c.Index)|1<<59)
	cfgs := c04Cfgs(c.Index)
	w := NewWorld(h.Tag, cfgs)
	fail := func(site, clause, trigger, detail string) { c.Violate(site, "setup:"+clause, trigger, detail) }
	for bi, b := range h.Blocks {
		if _, ok := w.ApplyBlock(b, fail); !ok {
			return
		}
		if bi != len(h.Blocks)-1 && c.Rng.Intn(2) == 0 {
			continue
		}
		f := w.M.Forest()
		if len(f.Nodes) == 0 {
			continue
		}
		c03State(c, w, f, h, bi+1, p.PerState)
		if c.CaseViolations() > 0 {
			return
		}
	}
}

func c03State(c *core.Ctx, w *World, f *rm.Forest, h gen.History, upTo int, per int) {
	c03StateX(c, w, f, h.Tag, per, nil, func(cfg *InstCfg, entry string, cl claim) any {
		return c03Scenario{History: h, UpTo: upTo, Cfg: cfg, Entry: entry, Claim: cl.JSON()}
	})
}

// c03StateX judges per generated claims (and honest claims drawn from the
// earlier forests in stale) against every verifier of w in state f.
func c03StateX(c *core.Ctx, w *World, f *rm.Forest, tag uint64, per int, stale []*rm.Forest, mkScn func(cfg *InstCfg, entry string, cl claim) any) {
	g := newHostileGen(c.Rng, f, f.N, f.Roots, false, tag)
	vs := c03Verifiers(w)
	var staleGens []*hostileGen
	for _, sf := range stale {
		if len(sf.Nodes) > 0 {
			staleGens = append(staleGens, newHostileGen(c.Rng, sf, sf.N, sf.Roots, false, tag))
		}
	}
	for i := 0; i < per+3*len(staleGens); i++ {
		var cl claim
		if i >= per {
			sc, ok := staleGens[(i-per)%len(staleGens)].honest()
			if !ok || hasZero(sc.Hashes) {
				continue
			}
			cl = sc
			cl.Kind = "honest-in-an-earlier-state"
			c.Count("claims_from_earlier_states", 1)
		} else {
			cl = g.next()
		}
		if i%7 == 6 && len(cl.Proof) > 0 {
			// a zero proof hash (stands for a deleted sibling in the library's encoding)
			cl.Proof[c.Rng.Intn(len(cl.Proof))] = rm.Zero
			cl.Kind += "+zero-proof-hash"
		}
		c.Count("claims", 1)
		truth, _ := claimTrue(f, cl)
		if truth {
			c.Count("claims_true_pairs_all", 1)
		}
		for _, v := range vs {
			cfg := (*InstCfg)(nil)
			if v.in != nil {
				cc := v.in.Cfg
				cfg = &cc
			}
			set := func(cl claim) func() {
				return func() { c.SetScenario(mkScn(cfg, v.name(), cl)) }
			}
			acc := c03Judge(c, f, v, cl, set(cl))
			if acc {
				c.Count("accepted:"+v.name(), 1)
			} else {
				c.Count("rejected:"+v.name(), 1)
				if truth && len(cl.Targets) > 0 {
					c.Count("rejected_although_all_pairs_true:"+v.name(), 1) // e.g. damaged proof; allowed
				}
			}
			// partial proofs completed with the true hashes at the missing positions
			if v.in != nil && v.in.MP != nil && v.site == v.in.Cfg.Kind+".VerifyPartialProof" && v.entry == "" && len(cl.Targets) > 0 {
				miss := v.in.MP.GetMissingPositions(cloneU64(cl.Targets))
				c2 := cl.clone()
				c2.Proof = nil
				for _, mp := range miss {
					if nd := f.Nodes[mp]; nd != nil {
						c2.Proof = append(c2.Proof, nd.Hash)
					} else {
						c2.Proof = append(c2.Proof, g.freshHash())
					}
				}
				c2.Kind += "+missing-completed"
				if c03Judge(c, f, v, c2, set(c2)) {
					c.Count("accepted:"+v.name()+"(completed)", 1)
				} else {
					c.Count("rejected:"+v.name()+"(completed)", 1)
				}
			}
		}
		anyTrue := false
		for _, b := range hashClass(f, cl) {
			anyTrue = anyTrue || b
		}
		if anyTrue {
			c.Distinct(core.FP(f.N, w.M.Alive, cl.Targets, hashClass(f, cl), len(cl.Proof)))
		}
		if c.WantSample("mutant") && len(cl.Targets) >= 2 {
			c.Sample("mutant", map[string]any{"leaves": f.N, "alive": aliveStr(w.M.Alive), "claim": cl.JSON(), "all_pairs_true": truth})
		}
	}
}

// c03Undo: claims against forests that went through undo / remember / prune.
func c03Undo(c *core.Ctx) {
	p := c03P(c.Tier)
	prof := gen.Tiny
	if c.Index%3 == 0 {
		prof = gen.Small
	}
	prof.RememberMode = 1
	tag := uint64(c.Seed)<<32 | uint64(c.Index) | 1<<56
	cfgs := []InstCfg{{Kind: "pollard"}, {"mapfull", []uint8{0, 3, 63}[c.Index%3]}, {"mappartial", []uint8{63, 0, 2}[c.Index%3]}}
	s := genForestScenario(c.Rng, tag, cfgs, fGenOpts{Profile: prof, Rounds: 2 + c.Rng.Intn(2), Undo: true, PartialOps: true, ForceEmptyRootOverwrite: c.Index%4 == 0})
	s.FromRootsAt = -1
	c03UndoRun(c, s, -1, nil, p.PerState/2)
}

func c03UndoRun(c *core.Ctx, s fScenario, onlyOp int, only *c03Scenario, per int) {
	var earlier []*rm.Forest
	runForest(c, s, func(site, clause, trigger, detail string) { c.Violate(site, "setup:"+clause, trigger, detail) }, func(st *fState) {
		f := st.F
		defer func() {
			earlier = append(earlier, f)
			if len(earlier) > 3 {
				earlier = earlier[1:]
			}
		}()
		if only != nil {
			if st.OpIndex != onlyOp {
				return
			}
			cl := only.Claim.Claim()
			for _, v := range c03Verifiers(st.W) {
				if only.Entry != "" && v.name() != only.Entry {
					continue
				}
				c03Judge(c, f, v, cl, func() {})
			}
			return
		}
		if len(f.Nodes) == 0 {
			return
		}
		if st.Op.Kind == "undo" {
			c.Count("states_after_undo", 1)
		}
		oi := st.OpIndex
		c03StateX(c, st.W, f, s.Tag, per, earlier, func(cfg *InstCfg, entry string, cl claim) any {
			return c03Scenario{Forest: &s, OpIndex: oi, Cfg: cfg, Entry: entry, Claim: cl.JSON()}
		})
	})
}

func c03Replay(c *core.Ctx, raw json.RawMessage) {
	var s c03Scenario
	if err := json.Unmarshal(raw, &s); err != nil {
		c.Inconclusive("bad scenario")
		return
	}
	c.SetScenario(s)
	if s.Forest != nil {
		c03UndoRun(c, *s.Forest, s.OpIndex, &s, 0)
		return
	}
	cfgs := c04Cfgs(0)
	if s.Cfg != nil {
		cfgs = []InstCfg{*s.Cfg}
	}
	w := NewWorld(s.History.Tag, cfgs)
	fail := func(site, clause, trigger, detail string) { c.Violate(site, "setup:"+clause, trigger, detail) }
	for bi, b := range s.History.Blocks {
		if s.UpTo > 0 && bi >= s.UpTo {
			break
		}
		if _, ok := w.ApplyBlock(b, fail); !ok {
			return
		}
	}
	f := w.M.Forest()
	cl := s.Claim.Claim()
	for _, v := range c03Verifiers(w) {
		if s.Entry != "" && v.name() != s.Entry {
			continue
		}
		acc := c03Judge(c, f, v, cl, func() {})
		if c.Verbose {
			fmt.Printf("  %s (%v): accepted=%v\n", v.name(), v.in != nil, acc)
		}
	}
}
