package mon

import (
	"bytes"
	"encoding/json"
	"fmt"
	"math/bits"
	"runtime/debug"
	"strings"

	u "github.com/utreexo/utreexo"

	"verifharness/core"
	"verifharness/gen"
	rm "verifharness/refmodel"
)

// C04 — verifiers are total on untrusted input and reject atomically.

type synthState struct {
	NumLeaves uint64   `json:"num_leaves"`
	Roots     []string `json:"roots"`
}

type c04Scenario struct {
	History *gen.History `json:"history,omitempty"`
	UpTo    int          `json:"up_to,omitempty"` // blocks applied before the call
	Synth   *synthState  `json:"synth,omitempty"`
	Cfg     *InstCfg     `json:"cfg,omitempty"`
	Entry   string       `json:"entry,omitempty"` // empty = all entry points
	Claim   claimJSON    `json:"claim"`
	Adds    int          `json:"adds"`
}

func c04Suites(tier string) []core.Suite {
	if tier == "thorough" {
		return []core.Suite{{Name: "reach", N: 400000}, {Name: "synth", N: 200000}}
	}
	return []core.Suite{{Name: "reach", N: 8000}, {Name: "synth", N: 4000}}
}

const c04ClaimsPerState = 24

func init() {
	core.Register(&core.Monitor{
		ID:    "C04",
		Level: "exploration",
		Rule: "cases: 'reach' = a seeded block history; at each of its states hostile (hashes, targets, proof) triples are drawn (structured mutants of honest proofs and alphabet claims: targets from existing nodes, absent positions, the top of the forest +-3, powers of two, 2^64-1-k, uniform 64-bit, duplicates and nested pairs; hashes from true/other-node/root/zero/fresh; proofs of length 0..12 and oversized; mismatched lengths) " +
			"and handed to Verify, Stump.Update, Pollard.Verify, MapPollard.Verify (full and partial, several TotalRows), MapPollard.VerifyPartialProof and MapPollard.GetMissingPositions. 'synth' = a well-formed synthetic stump (NumLeaves up to 2^63, len(Roots)=popcount) and a from-roots map forest. " +
			"An evaluation = one call. Refuted by: a panic; more hits of the calculateHashes row-advance hook than the step budget 2*(rows+3)*(len(targets)+2) (logical non-termination); the wall-clock watchdog of the driver (backstop); a rejected Stump.Update after which roots or leaf count differ from the deep copy taken before. " +
			"Non-trivial = claim with at least one target and matching lengths; distinct = distinct (leaf count, alive pattern, targets, proof length, generator kind).",
		Assumptions: []string{"termination is judged by a hook-counted step budget; wall-clock only as a backstop (120 s per case of <= a few thousand sub-millisecond calls)", "remember=true is not used with hostile input"},
		MinDistinct: 1000,
		Plan:        c04Suites,
		Run:         c04Run,
		Replay:      c04Replay,
	})
}

type stepBudgetExceeded struct{ steps, limit int }

var c04Steps, c04Limit int
var c04HookOn bool

func c04InstallHook() {
	if c04HookOn {
		return
	}
	c04HookOn = true
	fn := func(site string) {
		if site != "calculateHashes:row-advance" {
			return
		}
		c04Steps++
		if c04Limit > 0 && c04Steps > c04Limit {
			panic(stepBudgetExceeded{c04Steps, c04Limit})
		}
	}
	u.VerifHook.Store(&fn)
}

// c04Call runs one library call under the step budget with panic capture.
// It returns the library's error and whether a violation was recorded.
func c04Call(c *core.Ctx, site string, rows uint8, ntargets int, setScn func(), fn func() error) (err error, bad bool) {
	c04InstallHook()
	c04Steps = 0
	c04Limit = 2 * (int(rows) + 3) * (ntargets + 2)
	defer func() {
		c04Limit = 0
		if r := recover(); r != nil {
			bad = true
			setScn()
			if sb, ok := r.(stepBudgetExceeded); ok {
				c.Violate(site, "step-budget-exceeded", "calculateHashes", fmt.Sprintf("%s: the row-advance loop of calculateHashes ran %d times (budget %d for %d rows, %d targets): logical non-termination", site, sb.steps, sb.limit, rows, ntargets))
				return
			}
			st := debug.Stack()
			c.Violate(site, "panic", core.PanicTrigger(st), fmt.Sprintf("%s panicked: %v\n%s", site, r, trimLines(string(st), 30)))
		}
	}()
	c.Eval(1)
	err = fn()
	c.Max("max_row_advance_steps_in_one_call", c04Steps)
	return err, false
}

// stepGuard runs fn under C04's logical step budget: stuck=true if the row-advance loop of
// calculateHashes exceeded it (non-termination is C04's subject; other monitors that hand
// damaged proofs to verifiers use this so that a spinning verifier cannot stall them).
func stepGuard(rows uint8, ntargets int, fn func() error) (err error, stuck bool) {
	c04InstallHook()
	c04Steps = 0
	c04Limit = 4 * (int(rows) + 3) * (ntargets + 2)
	defer func() {
		c04Limit = 0
		if r := recover(); r != nil {
			if _, ok := r.(stepBudgetExceeded); ok {
				stuck = true
				return
			}
			panic(r)
		}
	}()
	return fn(), false
}

func trimLines(s string, n int) string {
	l := strings.Split(s, "\n")
	if len(l) > n {
		l = l[:n]
	}
	return strings.Join(l, "\n")
}

func countOutcome(c *core.Ctx, entry string, err error) {
	if err == nil {
		c.Count("accepted:"+entry, 1)
	} else {
		c.Count("rejected:"+entry, 1)
	}
}

func cloneStump(s u.Stump) u.Stump {
	return u.Stump{Roots: cloneHashes(s.Roots), NumLeaves: s.NumLeaves}
}

// c04Stump runs the two stand-alone entry points on a stump.
func c04Stump(c *core.Ctx, stump u.Stump, cl claim, adds []Hash, only string, setScn func(entry string)) {
	rows := rm.Rows(stump.NumLeaves)
	if only == "" || only == "Verify" {
		s := cloneStump(stump)
		err, bad := c04Call(c, "Verify", rows, len(cl.Targets), func() { setScn("Verify") }, func() error {
			_, e := u.Verify(s, c04Hashes(cl.Hashes), u.Proof{Targets: cloneU64(cl.Targets), Proof: cloneHashes(cl.Proof)})
			return e
		})
		if !bad {
			countOutcome(c, "Verify", err)
		}
	}
	if only == "" || only == "Stump.Update" {
		s := cloneStump(stump)
		err, bad := c04Call(c, "Stump.Update", rows, len(cl.Targets), func() { setScn("Stump.Update") }, func() error {
			_, e := s.Update(c04Hashes(cl.Hashes), cloneHashes(adds), u.Proof{Targets: cloneU64(cl.Targets), Proof: cloneHashes(cl.Proof)})
			return e
		})
		if !bad {
			countOutcome(c, "Stump.Update", err)
			if err != nil {
				c.Count("stump_update_rejections_compared", 1)
				if s.NumLeaves != stump.NumLeaves || !eqHashes(s.Roots, stump.Roots) {
					setScn("Stump.Update")
					c.Violate("Stump.Update", "rejected-but-modified", "", fmt.Sprintf("Stump.Update returned %q but the stump changed: leaves %d -> %d, roots %s -> %s",
						err, stump.NumLeaves, s.NumLeaves, hashesStr(stump.Roots), hashesStr(s.Roots)))
				}
			}
		}
	}
}

// c04Inst runs the forest entry points on one instance.
func c04Inst(c *core.Ctx, in *Inst, n uint64, cl claim, only string, setScn func(entry string)) {
	rows := rm.Rows(n)
	k := in.Cfg.Kind
	pr := func() u.Proof { return u.Proof{Targets: cloneU64(cl.Targets), Proof: cloneHashes(cl.Proof)} }
	if only == "" || only == k+".Verify" {
		err, bad := c04Call(c, k+".Verify", rows, len(cl.Targets), func() { setScn(k + ".Verify") }, func() error {
			return in.U.Verify(c04Hashes(cl.Hashes), pr(), false)
		})
		if !bad {
			countOutcome(c, k+".Verify", err)
		}
	}
	if in.MP == nil {
		return
	}
	if only == "" || only == k+".VerifyPartialProof" {
		err, bad := c04Call(c, k+".VerifyPartialProof", rows, len(cl.Targets), func() { setScn(k + ".VerifyPartialProof") }, func() error {
			return in.MP.VerifyPartialProof(cloneU64(cl.Targets), c04Hashes(cl.Hashes), cloneHashes(cl.Proof), false)
		})
		if !bad {
			countOutcome(c, k+".VerifyPartialProof", err)
		}
	}
	if only == "" || only == k+".GetMissingPositions" {
		c04Call(c, k+".GetMissingPositions", rows, len(cl.Targets), func() { setScn(k + ".GetMissingPositions") }, func() error {
			in.MP.GetMissingPositions(cloneU64(cl.Targets))
			return nil
		})
	}
}

// c04Remember: Verify and VerifyPartialProof with remember=true on a throw-away copy.
func c04Remember(c *core.Ctx, in *Inst, n uint64, cl claim, setScn func(entry string)) {
	rows := rm.Rows(n)
	k := in.Cfg.Kind
	err, bad := c04Call(c, k+".Verify(remember)", rows, len(cl.Targets), func() { setScn(k + ".Verify(remember)") }, func() error {
		return in.MP.Verify(c04Hashes(cl.Hashes), u.Proof{Targets: cloneU64(cl.Targets), Proof: cloneHashes(cl.Proof)}, true)
	})
	if !bad {
		countOutcome(c, k+".Verify(remember)", err)
	}
	err, bad = c04Call(c, k+".VerifyPartialProof(remember)", rows, len(cl.Targets), func() { setScn(k + ".VerifyPartialProof(remember)") }, func() error {
		return in.MP.VerifyPartialProof(cloneU64(cl.Targets), c04Hashes(cl.Hashes), cloneHashes(cl.Proof), true)
	})
	if !bad {
		countOutcome(c, k+".VerifyPartialProof(remember)", err)
	}
}

// c04Hashes copies a claim's hash list; an empty list is handed over alternately as nil and as
// an empty non-nil slice (a caller may do either; added after seeded change C04i, whose length
// check let a zero-length list through).
var c04EmptyFlip bool

func c04Hashes(x []Hash) []Hash {
	if len(x) == 0 {
		c04EmptyFlip = !c04EmptyFlip
		if c04EmptyFlip {
			return []Hash{}
		}
		return nil
	}
	return cloneHashes(x)
}

func c04Cfgs(idx int) []InstCfg {
	r1 := []uint8{1, 2, 3, 4, 5, 6, 7, 9, 13, 31, 50, 62}[idx%12]
	r2 := []uint8{0, 2, 5, 63}[idx%4]
	return []InstCfg{{Kind: "pollard"}, {"mapfull", 0}, {"mapfull", r1}, {"mapfull", 63}, {"mappartial", r2}}
}

func claimTraits(c *core.Ctx, g *hostileGen, cl claim) {
	c.Count("claims", 1)
	kind := cl.Kind
	if i := strings.Index(kind, "+"); i >= 0 {
		kind = kind[:i]
	}
	c.Count("claims_"+kind, 1)
	beyond, dup := false, false
	seen := map[uint64]bool{}
	for _, t := range cl.Targets {
		if t > g.top() {
			beyond = true
		}
		if seen[t] {
			dup = true
		}
		seen[t] = true
	}
	if beyond {
		c.Count("claims_with_target_above_forest_top", 1)
	}
	if dup {
		c.Count("claims_with_duplicate_target", 1)
	}
	if len(cl.Hashes) != len(cl.Targets) {
		c.Count("claims_with_length_mismatch", 1)
	}
	if len(cl.Proof) > 20 {
		c.Count("claims_with_oversized_proof", 1)
	}
	if len(cl.Targets) == 0 {
		c.Count("claims_without_targets", 1)
	}
}

func c04Run(c *core.Ctx) {
	switch c.Suite {
	case "synth":
		c04Synth(c)
		return
	}
	p := gen.Small
	if c.Index%3 == 0 {
		p = gen.Tiny
	}
	p.RememberMode = 1
	h := gen.RandomHistory(c.Rng, p, uint64(c.Seed)<<32|uint64(c.Index)|1<<61)
	cfgs := c04Cfgs(c.Index)
	w := NewWorld(h.Tag, cfgs)
	fail := func(site, clause, trigger, detail string) { c.Violate(site, "setup:"+clause, trigger, detail) }
	for bi := -1; bi < len(h.Blocks); bi++ {
		if bi >= 0 {
			if _, ok := w.ApplyBlock(h.Blocks[bi], fail); !ok {
				return
			}
		} else if c.Index%4 != 0 {
			continue // every fourth history also throws its claims at the still empty instances
		} else {
			c.Count("empty_accumulator_states", 1)
		}
		// hostile input at about every other state, always at the last one
		if bi >= 0 && bi != len(h.Blocks)-1 && c.Rng.Intn(2) == 0 {
			continue
		}
		f := w.M.Forest()
		g := newHostileGen(c.Rng, f, f.N, f.Roots, true, h.Tag)
		var copies []*Inst
		for _, in := range w.Insts {
			if in.MP == nil {
				continue
			}
			var buf bytes.Buffer
			if _, err := in.MP.Write(&buf); err != nil {
				continue
			}
			m2 := u.NewMapPollard(in.MP.Full)
			if _, err := m2.Read(&buf); err != nil {
				continue
			}
			copies = append(copies, &Inst{Cfg: in.Cfg, Name: in.Name + "(copy)", MP: &m2, U: &m2, Rem: map[Hash]bool{}})
		}
		for i := 0; i < c04ClaimsPerState; i++ {
			cl := g.next()
			claimTraits(c, g, cl)
			nadds := c.Rng.Intn(4)
			var adds []Hash
			for a := 0; a < nadds; a++ {
				adds = append(adds, g.freshHash())
			}
			scn := func(cfg *InstCfg) func(entry string) {
				return func(entry string) {
					upTo := bi + 1
					if bi < 0 {
						upTo = -1 // the empty accumulator, before the first block
					}
					c.SetScenario(c04Scenario{History: &h, UpTo: upTo, Cfg: cfg, Entry: entry, Claim: cl.JSON(), Adds: nadds})
				}
			}
			c04Stump(c, w.Stump, cl, adds, "", scn(nil))
			for _, in := range w.Insts {
				cfg := in.Cfg
				c04Inst(c, in, f.N, cl, "", scn(&cfg))
			}
			// the same entry points asked to REMEMBER what they verify, on throw-away copies of the
			// map forests (restored from their own bytes), so that whatever an accepted claim makes
			// them store cannot disturb the rest of the history
			for ci, cp := range copies {
				cfg := cp.Cfg
				c04Remember(c, cp, f.N, cl, scn(&cfg))
				_ = ci
			}
			if len(cl.Targets) > 0 && len(cl.Hashes) == len(cl.Targets) {
				c.Distinct(core.FP(f.N, w.M.Alive, cl.Targets, len(cl.Proof), cl.Kind))
			}
			if c.WantSample("hostile-claim") && len(cl.Targets) >= 2 {
				c.Sample("hostile-claim", map[string]any{"leaves": f.N, "alive": aliveStr(w.M.Alive), "claim": cl.JSON()})
			}
			if c.CaseViolations() > 0 {
				return
			}
		}
	}
}

func synthLeafCount(c *core.Ctx) uint64 {
	r := c.Rng
	switch r.Intn(8) {
	case 6: // more than 2^63 leaves: 64 rows, the widest forest a stump value can describe
		return uint64(1)<<63 | r.Uint64()>>uint(r.Intn(64)) | 1
	case 7:
		return ^uint64(0) - uint64(r.Intn(4))
	case 0:
		return uint64(1) << uint(r.Intn(64)) // up to 2^63
	case 1:
		return (uint64(1) << uint(1+r.Intn(63))) - 1
	case 2:
		return (uint64(1) << uint(r.Intn(63))) + 1
	case 3:
		return uint64(1 + r.Intn(300))
	case 4:
		return r.Uint64()>>1 | 1
	default:
		return r.Uint64() >> uint(1+r.Intn(62))
	}
}

func c04Synth(c *core.Ctx) {
	n := synthLeafCount(c)
	if c.Index%16 == 0 {
		n = 0 // the empty accumulator is a well-formed state too: no leaves, no roots
		c.Count("empty_accumulator_states", 1)
	}
	tag := uint64(c.Seed)<<32 | uint64(c.Index) | 1<<60
	var roots []Hash
	for i := 0; i < bits.OnesCount64(n); i++ {
		if c.Rng.Intn(6) == 0 {
			roots = append(roots, rm.Zero) // an emptied tree
		} else {
			roots = append(roots, rm.FreshHash(tag, uint64(1000+i)))
		}
	}
	ss := synthState{NumLeaves: n, Roots: hxs(roots)}
	stump := u.Stump{Roots: roots, NumLeaves: n}
	g := newHostileGen(c.Rng, nil, n, roots, true, tag)
	full := c.Index%2 == 0
	kind := "mappartial"
	if full {
		kind = "mapfull"
	}
	var in *Inst
	if n <= uint64(1)<<63 { // a map forest allocates at most 63 rows
		mp := u.NewMapPollardFromRoots(cloneHashes(roots), n, full)
		in = &Inst{Cfg: InstCfg{Kind: kind, Rows: 63}, Name: kind + "/fromroots", MP: &mp, U: &mp, Rem: map[Hash]bool{}}
	} else {
		c.Count("synthetic_stumps_with_64_rows", 1)
	}
	c.Max("max_synthetic_rows", int(rm.Rows(n)))
	for i := 0; i < c04ClaimsPerState; i++ {
		cl := g.random()
		claimTraits(c, g, cl)
		nadds := c.Rng.Intn(3)
		var adds []Hash
		for a := 0; a < nadds; a++ {
			adds = append(adds, g.freshHash())
		}
		scn := func(cfg *InstCfg) func(entry string) {
			return func(entry string) {
				c.SetScenario(c04Scenario{Synth: &ss, Cfg: cfg, Entry: entry, Claim: cl.JSON(), Adds: nadds})
			}
		}
		c04Stump(c, stump, cl, adds, "", scn(nil))
		if in != nil {
			cfg := in.Cfg
			c04Inst(c, in, n, cl, "", scn(&cfg))
		}
		if len(cl.Targets) > 0 && len(cl.Hashes) == len(cl.Targets) {
			c.Distinct(core.FP(n, cl.Targets, len(cl.Proof), cl.Kind))
		}
		if c.WantSample("synthetic-stump-claim") && len(cl.Targets) >= 2 {
			c.Sample("synthetic-stump-claim", map[string]any{"leaves": n, "roots": len(roots), "claim": cl.JSON()})
		}
		if c.CaseViolations() > 0 {
			return
		}
	}
}

func c04Replay(c *core.Ctx, raw json.RawMessage) {
	var s c04Scenario
	if err := json.Unmarshal(raw, &s); err != nil {
		c.Inconclusive("bad scenario")
		return
	}
	c.SetScenario(s)
	cl := s.Claim.Claim()
	var adds []Hash
	for a := 0; a < s.Adds; a++ {
		adds = append(adds, rm.FreshHash(0xADD5, uint64(a)))
	}
	noop := func(string) {}
	if s.Synth != nil {
		roots := unhxs(s.Synth.Roots)
		stump := u.Stump{Roots: roots, NumLeaves: s.Synth.NumLeaves}
		if s.Cfg == nil {
			c04Stump(c, stump, cl, adds, s.Entry, noop)
			if s.Entry != "" {
				return
			}
		}
		for _, full := range []bool{true, false} {
			if s.Synth.NumLeaves > uint64(1)<<63 {
				break
			}
			kind := "mappartial"
			if full {
				kind = "mapfull"
			}
			if s.Cfg != nil && s.Cfg.Kind != kind {
				continue
			}
			mp := u.NewMapPollardFromRoots(cloneHashes(roots), s.Synth.NumLeaves, full)
			in := &Inst{Cfg: InstCfg{Kind: kind, Rows: 63}, Name: kind + "/fromroots", MP: &mp, U: &mp, Rem: map[Hash]bool{}}
			c04Inst(c, in, s.Synth.NumLeaves, cl, s.Entry, noop)
		}
		return
	}
	if s.History == nil {
		c.Inconclusive("scenario without state")
		return
	}
	cfgs := c04Cfgs(0)
	if s.Cfg != nil {
		cfgs = []InstCfg{*s.Cfg}
	}
	w := NewWorld(s.History.Tag, cfgs)
	fail := func(site, clause, trigger, detail string) { c.Violate(site, "setup:"+clause, trigger, detail) }
	for bi, b := range s.History.Blocks {
		if s.UpTo < 0 || (bi >= s.UpTo && s.UpTo > 0) {
			break
		}
		if _, ok := w.ApplyBlock(b, fail); !ok {
			return
		}
	}
	if s.Cfg == nil {
		c04Stump(c, w.Stump, cl, adds, s.Entry, noop)
		if s.Entry != "" {
			return
		}
	}
	for _, in := range w.Insts {
		if strings.HasSuffix(s.Entry, "(remember)") {
			if in.MP != nil {
				c04Remember(c, in, w.M.N(), cl, noop)
			}
			continue
		}
		c04Inst(c, in, w.M.N(), cl, s.Entry, noop)
	}
}
