package mon

import (
	"encoding/json"
	"fmt"
	"math/rand"

	u "github.com/utreexo/utreexo"

	"verifharness/core"
	"verifharness/gen"
	rm "verifharness/refmodel"
)

// C05 — an accepted block is applied identically by every implementation, for
// every accepted encoding of the proof.

func c05Plan(tier string) histPlan {
	if tier == "thorough" {
		return histPlan{Enum: gen.EnumParams{MaxAdds: []int{5, 4, 3}}, Rand: 600000, Tall: 300}
	}
	return histPlan{Enum: gen.EnumParams{MaxAdds: []int{4, 3, 2}}, Rand: 12000, Tall: 6}
}

var c05Encodings = []string{"canonical", "permuted", "junk", "permuted+junk", "addproof", "subset-of-larger", "cached-proof-subset"}

func init() {
	core.Register(&core.Monitor{
		ID:    "C05",
		Level: "exploration",
		Rule: "cases = block histories (enumerated small scope + seeded random + tall). At each block the honest deletion proof is re-encoded (cycling, so every history sees several): canonical; random permutation of the (hash,target) pairs; 1-3 trailing junk proof hashes; both; " +
			"assembled by AddProof from two partial proofs; GetProofSubset of a proof for a larger leaf set; GetProofSubset of a light client's cached proof maintained by Proof.Update. An encoding that Verify accepts and whose targets are live-leaf positions is applied " +
			"to Stump, Pollard, full and partial MapPollards; afterwards all must report the reference roots with exactly the named leaves removed. An evaluation = one (block, encoding) applied and compared on all implementations. " +
			"Non-trivial = block with deletions applied under a non-canonical encoding; distinct = distinct (alive pattern, deletion slots in order, encoding).",
		Assumptions: []string{"SHA-512/256 collision freedom", "reference model correct", "encodings the verifier rejects are not applied (rejecting a non-canonical encoding is allowed); the block then uses the canonical proof"},
		MinDistinct: 100,
		Plan: func(tier string) []core.Suite {
			n := 2500
			if tier == "thorough" {
				n = 400000
			}
			return append(c05Plan(tier).suites(), core.Suite{Name: "undo", N: n})
		},
		Run: func(c *core.Ctx) {
			if c.Suite == "undo" {
				c05Undo(c)
				return
			}
			h := c05Plan(c.Tier).history(c)
			cfgs := StdCfgs(c.Rng, c.Tier, c.Index)
			if c.Suite == "tall" {
				cfgs = []InstCfg{{Kind: "pollard"}, {"mapfull", 0}, {"mapfull", 63}, {"mappartial", 63}}
			}
			mode := ""
			if c.Suite == "rand" && c.Index%8 == 5 {
				mode = "readd"
			}
			c05Check(c, histScenario{History: h, Cfgs: cfgs, Extra: c.Index, LeafMode: mode})
		},
		Replay: func(c *core.Ctx, raw json.RawMessage) {
			s, err := parseHistScenario(raw)
			if err != nil {
				c.Inconclusive("bad scenario")
				return
			}
			if len(s.Cfgs) == 0 {
				s.Cfgs = StdCfgs(rand.New(rand.NewSource(1)), "quick", 0)
			}
			// replay every rotation of encodings
			for rot := 0; rot < len(c05Encodings); rot++ {
				s.Extra = rot
				c05Check(c, s)
				if c.CaseViolations() > 0 {
					return
				}
			}
		},
	})
}

// c05Undo: a forest scenario with undo, then 2-4 further blocks under re-encoded proofs.
func c05Undo(c *core.Ctx) {
	tag := uint64(c.Seed)<<32 | uint64(c.Index) | 1<<55
	cfgs := []InstCfg{{Kind: "pollard"}, {"mapfull", 63}, {"mapfull", []uint8{0, 4, 50}[c.Index%3]}, {"mappartial", []uint8{63, 0, 2}[c.Index%3]}}
	prof := gen.Tiny
	if c.Index%3 == 0 {
		prof = gen.Small
	}
	prof.RememberMode = 1
	if c.Index%2 == 0 {
		prof.RememberMode = 2 // everything remembered: the partial forest applies blocks without being re-shown the proofs
	}
	fs := genForestScenario(c.Rng, tag, cfgs, fGenOpts{Profile: prof, Rounds: 1 + c.Rng.Intn(3), Undo: true, PartialOps: c.Index%3 != 0, ForceEmptyRootOverwrite: c.Index%2 == 0, Reload: c.Index%4 == 1, JunkProofs: c.Index%4 == 3})
	fs.FromRootsAt = -1
	if c.Index%4 == 1 {
		// the re-encoded blocks are applied to instances that were just restored from their own
		// bytes (added after seeded change C05h)
		fs.Ops = append(fs.Ops, fOp{Kind: "reload"})
	}
	// the end state of the scenario, on the model alone
	m := &rm.Model{}
	var stack []*rm.Model
	var ctr uint64
	for _, op := range fs.Ops {
		switch op.Kind {
		case "block":
			stack = append(stack, m.Clone())
			gen.ApplyToModel(m, *op.Block, tag, &ctr)
		case "undo":
			for i := 0; i < op.K && len(stack) > 0; i++ {
				m = stack[len(stack)-1]
				stack = stack[:len(stack)-1]
			}
		}
	}
	var tail []gen.Block
	for i := 0; i < 2+c.Rng.Intn(3); i++ {
		b := gen.NextBlock(c.Rng, m, prof, len(m.Leaves) == 0)
		if i == 0 && len(m.Live()) > 0 && len(b.Dels) == 0 {
			b.Dels = gen.PickDels(c.Rng, m, 1) // the first block after the undo should delete something
		}
		gen.ApplyToModel(m, b, tag, &ctr)
		tail = append(tail, b)
	}
	c05Check(c, histScenario{Forest: &fs, History: gen.History{Tag: tag, Blocks: tail}, Cfgs: cfgs, Extra: c.Index})
}

func c05Check(c *core.Ctx, s histScenario) {
	c.SetScenario(s)
	rot := 0
	switch v := s.Extra.(type) {
	case int:
		rot = v
	case float64:
		rot = int(v)
	}
	var w *World
	lcOK := true
	if s.Forest != nil {
		// states reached through undo: the block encodings are applied after the forest scenario
		w = runForest(c, *s.Forest, func(site, clause, trigger, detail string) { c.Violate(site, "setup:"+clause, trigger, detail) }, nil)
		if w == nil || c.CaseViolations() > 0 {
			return
		}
		lcOK = false // the light client of the cached-proof encoding does not follow undo
		c.Count("histories_continued_after_undo", 1)
	} else {
		w = NewWorld(s.History.Tag, s.Cfgs)
		w.SetLeafMode(s.LeafMode)
		if s.LeafMode != "" {
			c.Count("histories_with_leaf_mode_"+s.LeafMode, 1)
		}
	}
	// light client remembering everything (source of "cached-proof-subset")
	var lcProof u.Proof
	var lcHashes []Hash
	joined := false
	for bi, b := range s.History.Blocks {
		// A forest started from the bare roots (the other constructor) joins once per history: at the first
		// state that has an empty root, or half-way if there is none (round 10, seeded change C05j - a
		// constructor that leaves empty roots out; the damage shows when later additions reach that row).
		if !joined && bi >= 1 && w.Stump.NumLeaves > 0 {
			hasEmpty := false
			for _, r := range w.Stump.Roots {
				if r == (Hash{}) {
					hasEmpty = true
				}
			}
			if hasEmpty || bi >= len(s.History.Blocks)/2 {
				joined = true
				mp := u.NewMapPollardFromRoots(cloneHashes(w.Stump.Roots), w.Stump.NumLeaves, false)
				w.Insts = append(w.Insts, &Inst{Cfg: InstCfg{Kind: "mappartial", Rows: 63}, Name: "mappartial/fromroots", MP: &mp, U: &mp, Rem: map[Hash]bool{}})
				c.Count("from_roots_instances", 1)
				if hasEmpty {
					c.Count("from_roots_instances_started_over_an_empty_root", 1)
				}
			}
		}
		rec := w.PrepareBlock(b)
		f := rec.Before.Forest()
		enc := c05Encodings[(rot+bi)%len(c05Encodings)]
		dh := cloneHashes(rec.DelHashes)
		pr := cloneProof(rec.Proof)
		applied := "canonical"
		if len(dh) > 0 {
			switch enc {
			case "permuted", "permuted+junk":
				perm := c.Rng.Perm(len(dh))
				nd := make([]Hash, len(dh))
				nt := make([]uint64, len(dh))
				for i, j := range perm {
					nd[i], nt[i] = dh[j], pr.Targets[j]
				}
				dh, pr.Targets = nd, nt
				if enc == "permuted+junk" {
					for i := 0; i < 1+c.Rng.Intn(3); i++ {
						pr.Proof = append(pr.Proof, rm.FreshHash(w.Tag, uint64(bi*10+i)))
					}
				}
			case "junk":
				for i := 0; i < 1+c.Rng.Intn(3); i++ {
					pr.Proof = append(pr.Proof, rm.FreshHash(w.Tag, uint64(bi*10+i)))
				}
			case "addproof":
				if len(dh) >= 2 {
					k := 1 + c.Rng.Intn(len(dh)-1)
					pa, _ := f.ProofForHashes(dh[:k])
					pb, _ := f.ProofForHashes(dh[k:])
					dh, pr = u.AddProof(pa, pb, cloneHashes(dh[:k]), cloneHashes(dh[k:]), f.N)
				}
			case "subset-of-larger":
				// proof of the deletions plus some other live leaves, restricted again
				all := cloneHashes(rec.DelHashes)
				for _, sl := range rec.Before.Live() {
					h := rec.Before.Leaves[sl]
					isDel := false
					for _, d := range rec.DelHashes {
						if d == h {
							isDel = true
						}
					}
					if !isDel && c.Rng.Intn(2) == 0 {
						all = append(all, h)
					}
				}
				c.Rng.Shuffle(len(all), func(i, j int) { all[i], all[j] = all[j], all[i] })
				big, _ := f.ProofForHashes(all)
				wants := cloneU64(rec.Proof.Targets)
				sh, sp, err := u.GetProofSubset(big, all, wants, f.N)
				if err == nil {
					dh, pr = sh, sp
				} else {
					c.Count("subset_encoding_errors", 1)
				}
			case "cached-proof-subset":
				if lcOK && len(lcHashes) > 0 {
					wants := cloneU64(rec.Proof.Targets)
					sh, sp, err := u.GetProofSubset(cloneProof(lcProof), cloneHashes(lcHashes), wants, f.N)
					if err == nil {
						dh, pr = sh, sp
					} else {
						c.Count("cached_subset_encoding_errors", 1)
					}
				}
			}
			applied = enc
			// accepted by the stand-alone verifier? targets live-leaf positions? (they are, by construction: re-check)
			c.Eval(1)
			if _, err := u.Verify(w.Stump, cloneHashes(dh), cloneProof(pr)); err != nil {
				c.Count("encodings_rejected:"+enc, 1)
				dh, pr, applied = cloneHashes(rec.DelHashes), cloneProof(rec.Proof), "canonical"
			} else {
				for i, t := range pr.Targets {
					nd := f.Nodes[t]
					if nd == nil || nd.Leaf < 0 || nd.Hash != dh[i] {
						c.Inconclusive("harness: encoded proof names a non-leaf target")
						return
					}
				}
			}
		}
		enc2 := *rec
		enc2.DelHashes, enc2.Proof = dh, pr
		fail := func(site, clause, trigger, detail string) {
			c.Violate(site, "accepted-block-"+clause, "encoding="+applied, fmt.Sprintf("block %d (dels %v adds %d) encoding %s targets %v proof len %d: %s", bi, b.Dels, b.Adds, applied, pr.Targets, len(pr.Proof), detail))
		}
		ok := w.ApplyToStump(&enc2, fail)
		rec.UD = enc2.UD
		for _, in := range w.Insts {
			if !ApplyToInst(in, &enc2, fail) {
				ok = false
			}
		}
		w.CommitModel(rec)
		if !ok {
			return
		}
		c.Count("applied:"+applied, 1)
		checkRoots(c, w, w.M.Forest(), fmt.Sprintf("after block %d applied with encoding %s (targets %v)", bi, applied, pr.Targets),
			func(site, clause, trigger, detail string) {
				c.Violate(site, clause, "encoding="+applied, detail)
			})
		if c.CaseViolations() > 0 {
			return
		}
		if len(dh) > 0 && applied != "canonical" {
			c.Distinct(core.FP(rec.Before.Alive, b.Dels, applied))
			if c.WantSample(applied) {
				c.Sample(applied, map[string]any{"alive_before": aliveStr(rec.Before.Alive), "del_slots": b.Dels, "adds": b.Adds, "encoded_targets": pr.Targets, "proof_hashes": len(pr.Proof), "canonical_proof_hashes": len(rec.Proof.Proof)})
			}
		}
		// keep the light client's cached proof of every live leaf up to date
		if lcOK {
			rem := make([]uint32, len(rec.AddHashes))
			for i := range rem {
				rem[i] = uint32(i)
			}
			var err error
			lcHashes, err = lcProof.Update(lcHashes, cloneHashes(rec.AddHashes), cloneU64(pr.Targets), rem, rec.UD)
			if err != nil {
				lcOK = false
			}
		}
	}
}
