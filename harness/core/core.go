// Package core is the driver shared by all monitors: case scheduling in child
// processes, three-valued verdicts, known-finding matching, evidence output.
package core

import (
	"encoding/binary"
	"encoding/json"
	"fmt"
	"hash/fnv"
	"math/rand"
	"sort"
)

// Violation is one refuting observation.
type Violation struct {
	Property string          `json:"property"`
	Site     string          `json:"site"`    // API call / entry point
	Clause   string          `json:"clause"`  // which oracle clause failed
	Trigger  string          `json:"trigger"` // named predicate over the failing case
	Detail   string          `json:"detail"`
	Suite    string          `json:"suite"`
	Index    int             `json:"index"`
	Seed     uint64          `json:"seed"`
	Tier     string          `json:"tier"`
	Scenario json.RawMessage `json:"scenario,omitempty"`
	Known    string          `json:"known,omitempty"`
	Replay   string          `json:"-"`
}

func (v *Violation) Key() string { return v.Site + "|" + v.Clause + "|" + v.Trigger }

// Suite is a fixed-size list of cases.
type Suite struct {
	Name        string
	N           int
	Exhaustive  bool
	CaseTimeout int // seconds, 0 = default
}

// Monitor describes one property's decision procedure.
type Monitor struct {
	ID          string
	Level       string // exploration | fault_enumeration
	Rule        string
	Assumptions []string
	MinDistinct int
	// MinCounters: a run in which one of these counters stays below its
	// minimum observed too little to mean anything (BROKEN-RUN, exit 2).
	MinCounters map[string]int64
	Race        bool // must run in the -race binary
	Plan        func(tier string) []Suite
	Run         func(c *Ctx)
	// Replay re-runs an explicit scenario (from a replay or findings file).
	Replay func(c *Ctx, scenario json.RawMessage)
	// PostWorker, if set, runs in the worker after its last case (e.g. to
	// flush per-process monitors).
	PostWorker func(c *Ctx)
}

// Result is what a worker hands back.
type Result struct {
	Evals        int64
	Cases        int64
	Fingerprints map[uint64]struct{}
	Counters     map[string]int64
	Maxes        map[string]int64
	Samples      []json.RawMessage
	SampleKinds  map[string]int
	Violations   []Violation
	ViolCount    int64
	Inconclusive []string
	Done         bool
	Abandoned    bool  // the worker stopped after a verdict that leaves it unusable (e.g. goroutines spinning inside the library)
	HungAt       int64 // global case number, -1 if none
	NextStart    int64
}

func NewResult() *Result {
	return &Result{Fingerprints: map[uint64]struct{}{}, Counters: map[string]int64{}, Maxes: map[string]int64{},
		SampleKinds: map[string]int{}, HungAt: -1}
}

func (r *Result) Merge(o *Result) {
	r.Evals += o.Evals
	r.Cases += o.Cases
	for k := range o.Fingerprints {
		r.Fingerprints[k] = struct{}{}
	}
	for k, v := range o.Counters {
		r.Counters[k] += v
	}
	for k, v := range o.Maxes {
		if v > r.Maxes[k] {
			r.Maxes[k] = v
		}
	}
	for _, s := range o.Samples {
		if len(r.Samples) < 12 {
			r.Samples = append(r.Samples, s)
		}
	}
	r.Violations = append(r.Violations, o.Violations...)
	r.ViolCount += o.ViolCount
	r.Inconclusive = append(r.Inconclusive, o.Inconclusive...)
}

// Ctx is handed to a monitor for one case.
type Ctx struct {
	Prop, Tier string
	Seed       uint64
	Suite      string
	Index      int
	Rng        *rand.Rand
	Res        *Result
	scenario   any
	ReplayMode bool
	Verbose    bool
	WorkDir    string
	caseViol   int
	softSeen   map[string]bool
}

const maxViolPerWorker = 40
const maxSamplesPerKind = 2

func (c *Ctx) Eval(n int) { c.Res.Evals += int64(n) }

// Distinct records the fingerprint of a non-trivial case.
func (c *Ctx) Distinct(fp uint64) { c.Res.Fingerprints[fp] = struct{}{} }

func (c *Ctx) Count(name string, n int) { c.Res.Counters[name] += int64(n) }
func (c *Ctx) Max(name string, v int) {
	if int64(v) > c.Res.Maxes[name] {
		c.Res.Maxes[name] = int64(v)
	}
}

// Sample keeps a few written-out cases per kind.
func (c *Ctx) Sample(kind string, v any) {
	if c.Res.SampleKinds[kind] >= maxSamplesPerKind {
		return
	}
	c.Res.SampleKinds[kind]++
	b, err := json.Marshal(map[string]any{"kind": kind, "suite": c.Suite, "index": c.Index, "case": v})
	if err == nil {
		c.Res.Samples = append(c.Res.Samples, b)
	}
}

// WantSample tells whether a sample of this kind would still be kept.
func (c *Ctx) WantSample(kind string) bool { return c.Res.SampleKinds[kind] < maxSamplesPerKind }

// SetScenario stores the replayable input of the current case.
func (c *Ctx) SetScenario(v any) { c.scenario = v }

// Inconclusive records a sub-run that could not be decided.
func (c *Ctx) Inconclusive(what string) {
	c.Res.Inconclusive = append(c.Res.Inconclusive, fmt.Sprintf("%s/%d: %s", c.Suite, c.Index, what))
}

// Violate records a violation of the property under check.
func (c *Ctx) Violate(site, clause, trigger, detail string) {
	c.Res.ViolCount++
	c.caseViol++
	if c.Verbose {
		fmt.Printf("  violation: %s|%s|%s: %s\n", site, clause, trigger, detail)
	}
	if len(c.Res.Violations) >= maxViolPerWorker && !c.ReplayMode {
		// keep at most one per distinct key beyond the cap
		for i := range c.Res.Violations {
			if c.Res.Violations[i].Site == site && c.Res.Violations[i].Clause == clause && c.Res.Violations[i].Trigger == trigger {
				return
			}
		}
	}
	v := Violation{Property: c.Prop, Site: site, Clause: clause, Trigger: trigger, Detail: detail,
		Suite: c.Suite, Index: c.Index, Seed: c.Seed, Tier: c.Tier}
	if c.scenario != nil {
		if b, err := json.Marshal(c.scenario); err == nil {
			v.Scenario = b
		}
	}
	c.Res.Violations = append(c.Res.Violations, v)
}

// ViolateContinue records a violation at most once per key per case and does
// not count it as a reason to abandon the case: used where a recorded known
// finding is so pervasive that stopping would hide everything behind it.
func (c *Ctx) ViolateContinue(site, clause, trigger, detail string) {
	k := site + "|" + clause + "|" + trigger
	if c.softSeen == nil {
		c.softSeen = map[string]bool{}
	}
	if c.softSeen[k] {
		return
	}
	c.softSeen[k] = true
	c.Violate(site, clause, trigger, detail)
	c.caseViol--
}

// AbandonProcess asks the worker to stop after the current case: a verdict was
// reached, but goroutines that never return are still alive in this process.
func (c *Ctx) AbandonProcess() { c.Res.Abandoned = true }

// CaseViolations is the number of violations recorded in the current case.
func (c *Ctx) CaseViolations() int { return c.caseViol }

// CaseSeed derives the per-case PRNG seed.
func CaseSeed(seed uint64, prop, suite string, idx int) int64 {
	h := fnv.New64a()
	var b [8]byte
	binary.LittleEndian.PutUint64(b[:], seed)
	h.Write(b[:])
	h.Write([]byte(prop))
	h.Write([]byte{0})
	h.Write([]byte(suite))
	h.Write([]byte{0})
	binary.LittleEndian.PutUint64(b[:], uint64(idx))
	h.Write(b[:])
	return int64(h.Sum64() & 0x7fffffffffffffff)
}

// FP hashes a list of values into a 64-bit fingerprint.
func FP(vals ...any) uint64 {
	h := fnv.New64a()
	var b [8]byte
	for _, v := range vals {
		switch x := v.(type) {
		case int:
			binary.LittleEndian.PutUint64(b[:], uint64(x))
			h.Write(b[:])
		case uint64:
			binary.LittleEndian.PutUint64(b[:], x)
			h.Write(b[:])
		case uint8:
			h.Write([]byte{x})
		case bool:
			if x {
				h.Write([]byte{1})
			} else {
				h.Write([]byte{0})
			}
		case string:
			h.Write([]byte(x))
			h.Write([]byte{0})
		case []int:
			for _, y := range x {
				binary.LittleEndian.PutUint64(b[:], uint64(y))
				h.Write(b[:])
			}
			h.Write([]byte{0xfe})
		case []uint64:
			for _, y := range x {
				binary.LittleEndian.PutUint64(b[:], y)
				h.Write(b[:])
			}
			h.Write([]byte{0xfe})
		case []bool:
			for _, y := range x {
				if y {
					h.Write([]byte{1})
				} else {
					h.Write([]byte{0})
				}
			}
			h.Write([]byte{0xfe})
		case []byte:
			h.Write(x)
			h.Write([]byte{0xfe})
		default:
			fmt.Fprintf(h, "%v", x)
			h.Write([]byte{0xfd})
		}
		h.Write([]byte{0xff})
	}
	return h.Sum64()
}

// SortedKeys helps produce deterministic output.
func SortedKeys(m map[string]int64) []string {
	ks := make([]string, 0, len(m))
	for k := range m {
		ks = append(ks, k)
	}
	sort.Strings(ks)
	return ks
}

// Registry of monitors, filled by package mon.
var Monitors = map[string]*Monitor{}

func Register(m *Monitor) { Monitors[m.ID] = m }
