package core

import (
	"bytes"
	"encoding/gob"
	"encoding/json"
	"flag"
	"fmt"
	"math/rand"
	"os"
	"os/exec"
	"path/filepath"
	"regexp"
	"runtime"
	"runtime/debug"
	"sort"
	"strconv"
	"strings"
	"sync"
	"sync/atomic"
	"time"
)

// VerifRoot is /verif (overridable for vp-run snapshots via VERIF_ROOT).
func VerifRoot() string {
	if r := os.Getenv("VERIF_ROOT"); r != "" {
		return r
	}
	return "/verif"
}

type Finding struct {
	ID       string   `json:"id"`
	Property string   `json:"property"`
	Status   string   `json:"status"` // open | fixed
	Commit   string   `json:"commit,omitempty"`
	Keys     []string `json:"keys"`
	Replay   string   `json:"replay,omitempty"`
	What     string   `json:"what"`
	Line     string   `json:"line"`
}

type FindingsFile struct {
	Comment  string    `json:"comment"`
	Findings []Finding `json:"findings"`
}

func loadFindings() FindingsFile {
	var ff FindingsFile
	b, err := os.ReadFile(filepath.Join(VerifRoot(), "known_findings.json"))
	if err != nil {
		return ff
	}
	if err := json.Unmarshal(b, &ff); err != nil {
		fmt.Fprintf(os.Stderr, "known_findings.json: %v\n", err)
		os.Exit(2)
	}
	return ff
}

// ReplayFile is the on-disk format of replays/ and findings/ inputs.
type ReplayFile struct {
	Property string          `json:"property"`
	Suite    string          `json:"suite"`
	Index    int             `json:"index"`
	Seed     uint64          `json:"seed"`
	Tier     string          `json:"tier"`
	Key      string          `json:"key,omitempty"`
	Detail   string          `json:"detail,omitempty"`
	Scenario json.RawMessage `json:"scenario,omitempty"`
}

var libFrame = regexp.MustCompile(`github\.com/utreexo/utreexo\.([A-Za-z0-9_\.\(\)\*\[\]]+)`)

// PanicTrigger names the innermost library frame of a panic stack.
func PanicTrigger(stack []byte) string {
	m := libFrame.FindSubmatch(stack)
	if m == nil {
		return "harness"
	}
	s := string(m[1])
	s = strings.ReplaceAll(s, "(*", "")
	s = strings.ReplaceAll(s, ")", "")
	if i := strings.Index(s, "("); i >= 0 {
		s = s[:i]
	}
	if i := strings.Index(s, "["); i >= 0 {
		s = s[:i]
	}
	return strings.TrimSuffix(s, ".")
}

// PreCase, if set, runs before every case (per-case harness modes that are a function of the case index).
var PreCase func(c *Ctx)

// RunCase runs one case with panic capture.
func RunCase(m *Monitor, c *Ctx, replay json.RawMessage) {
	defer func() {
		if r := recover(); r != nil {
			st := debug.Stack()
			c.Violate("case", "panic", PanicTrigger(st), fmt.Sprintf("panic: %v\n%s", r, trimStack(st)))
		}
	}()
	if PreCase != nil {
		PreCase(c)
	}
	if replay != nil {
		if m.Replay == nil {
			c.Inconclusive("monitor has no replay function")
			return
		}
		m.Replay(c, replay)
		return
	}
	m.Run(c)
}

func trimStack(st []byte) string {
	lines := strings.Split(string(st), "\n")
	if len(lines) > 40 {
		lines = lines[:40]
	}
	return strings.Join(lines, "\n")
}

type caseRef struct {
	suite string
	idx   int
	to    int
}

func planCases(m *Monitor, tier string) ([]Suite, int64) {
	suites := m.Plan(tier)
	var total int64
	for _, s := range suites {
		total += int64(s.N)
	}
	return suites, total
}

func caseAt(suites []Suite, g int64) caseRef {
	for _, s := range suites {
		if g < int64(s.N) {
			return caseRef{s.Name, int(g), s.CaseTimeout}
		}
		g -= int64(s.N)
	}
	panic("case index out of range")
}

func writeResult(path string, r *Result) {
	var buf bytes.Buffer
	if err := gob.NewEncoder(&buf).Encode(r); err != nil {
		fmt.Fprintf(os.Stderr, "encode result: %v\n", err)
		os.Exit(4)
	}
	tmp := path + ".tmp"
	if err := os.WriteFile(tmp, buf.Bytes(), 0o644); err != nil {
		fmt.Fprintf(os.Stderr, "write result: %v\n", err)
		os.Exit(4)
	}
	os.Rename(tmp, path)
}

func readResult(path string) (*Result, error) {
	b, err := os.ReadFile(path)
	if err != nil {
		return nil, err
	}
	r := NewResult()
	if err := gob.NewDecoder(bytes.NewReader(b)).Decode(r); err != nil {
		return nil, err
	}
	if r.Fingerprints == nil {
		r.Fingerprints = map[uint64]struct{}{}
	}
	if r.Counters == nil {
		r.Counters = map[string]int64{}
	}
	if r.Maxes == nil {
		r.Maxes = map[string]int64{}
	}
	if r.SampleKinds == nil {
		r.SampleKinds = map[string]int{}
	}
	return r, nil
}

const defaultCaseTimeout = 60

// workerMain runs a shard of the plan.
func workerMain(m *Monitor, tier string, seed uint64, shard, nshards int, skip map[int64]bool, out string, only int64, timeoutMul int) {
	suites, total := planCases(m, tier)
	res := NewResult()
	var curCase atomic.Int64
	var curStart atomic.Int64
	var curTO atomic.Int64
	curCase.Store(-1)
	go func() {
		for {
			time.Sleep(500 * time.Millisecond)
			g := curCase.Load()
			if g < 0 {
				continue
			}
			if time.Since(time.Unix(0, curStart.Load())) > time.Duration(curTO.Load())*time.Second {
				buf := make([]byte, 1<<20)
				n := runtime.Stack(buf, true)
				fmt.Fprintf(os.Stderr, "WATCHDOG: case %d exceeded %ds\n%s\n", g, curTO.Load(), buf[:n])
				r2 := NewResult()
				r2.HungAt = g
				writeResult(out+".hung", r2)
				os.Exit(3)
			}
		}
	}()
	pend := out + ".pending"
	var last *Ctx
	for g := int64(0); g < total; g++ {
		if skip[g] {
			continue
		}
		if only >= 0 {
			if g != only {
				continue
			}
		} else if int(g%int64(nshards)) != shard {
			continue
		}
		cr := caseAt(suites, g)
		os.WriteFile(pend, []byte(fmt.Sprintf("%d %s %d\n", g, cr.suite, cr.idx)), 0o644)
		c := &Ctx{Prop: m.ID, Tier: tier, Seed: seed, Suite: cr.suite, Index: cr.idx, Res: res,
			Rng: rand.New(rand.NewSource(CaseSeed(seed, m.ID, cr.suite, cr.idx))), WorkDir: filepath.Dir(out)}
		to := cr.to
		if to == 0 {
			to = defaultCaseTimeout
		}
		curTO.Store(int64(to * timeoutMul))
		curStart.Store(time.Now().UnixNano())
		curCase.Store(g)
		RunCase(m, c, nil)
		res.Cases++
		curCase.Store(-1)
		last = c
		if res.Abandoned {
			writeResult(out, res)
			os.Remove(pend)
			os.Exit(5)
		}
	}
	if m.PostWorker != nil {
		c := last
		if c == nil {
			c = &Ctx{Prop: m.ID, Tier: tier, Seed: seed, Suite: "post", Res: res, Rng: rand.New(rand.NewSource(1)), WorkDir: filepath.Dir(out)}
		}
		func() {
			defer func() {
				if r := recover(); r != nil {
					c.Violate("post", "panic", PanicTrigger(debug.Stack()), fmt.Sprint(r))
				}
			}()
			m.PostWorker(c)
		}()
	}
	res.Done = true
	writeResult(out, res)
	os.Remove(pend)
}

func replayMain(m *Monitor, path string, out string, verbose bool) {
	b, err := os.ReadFile(path)
	if err != nil {
		fmt.Fprintf(os.Stderr, "replay: %v\n", err)
		os.Exit(2)
	}
	var rf ReplayFile
	if err := json.Unmarshal(b, &rf); err != nil {
		fmt.Fprintf(os.Stderr, "replay: %v\n", err)
		os.Exit(2)
	}
	res := NewResult()
	tier := rf.Tier
	if tier == "" {
		tier = "quick"
	}
	c := &Ctx{Prop: m.ID, Tier: tier, Seed: rf.Seed, Suite: rf.Suite, Index: rf.Index, Res: res, ReplayMode: true, Verbose: verbose,
		Rng: rand.New(rand.NewSource(CaseSeed(rf.Seed, m.ID, rf.Suite, rf.Index))), WorkDir: filepath.Dir(out)}
	go func() {
		time.Sleep(10 * time.Minute)
		fmt.Fprintf(os.Stderr, "WATCHDOG: replay exceeded 600s\n")
		res.HungAt = 0
		os.Exit(3)
	}()
	RunCase(m, c, rf.Scenario)
	res.Cases++
	res.Done = true
	if out != "" {
		writeResult(out, res)
	}
}

// ---------------------------------------------------------------------------

type evidence struct {
	PropertyID  string         `json:"property_id"`
	Tier        string         `json:"tier"`
	Seed        int64          `json:"seed"`
	Level       string         `json:"level"`
	Coverage    map[string]any `json:"coverage"`
	Assumptions []string       `json:"assumptions"`
	WallS       float64        `json:"wall_s"`
	Violations  int            `json:"violations"`
}

func selfExe() string {
	p, err := os.Executable()
	if err != nil {
		return os.Args[0]
	}
	return p
}

// children is the registry of running worker processes; abortAll kills them
// once a confirmed non-returning or process-fatal case has decided the run.
var children struct {
	sync.Mutex
	m       map[*exec.Cmd]bool
	aborted bool
}

func abortAll() {
	children.Lock()
	defer children.Unlock()
	children.aborted = true
	for c := range children.m {
		if c.Process != nil {
			c.Process.Kill()
		}
	}
}

func aborted() bool {
	children.Lock()
	defer children.Unlock()
	return children.aborted
}

func runChild(args []string, logPath string) (int, error) {
	cmd := exec.Command(selfExe(), args...)
	lf, err := os.Create(logPath)
	if err != nil {
		return -1, err
	}
	defer lf.Close()
	cmd.Stdout = lf
	cmd.Stderr = lf
	cmd.Env = append(os.Environ(), "GORACE=halt_on_error=0 exitcode=0 log_path="+logPath+".race")
	children.Lock()
	if children.aborted {
		children.Unlock()
		return -2, nil
	}
	if children.m == nil {
		children.m = map[*exec.Cmd]bool{}
	}
	if err := cmd.Start(); err != nil {
		children.Unlock()
		return -1, err
	}
	children.m[cmd] = true
	children.Unlock()
	err = cmd.Wait()
	children.Lock()
	delete(children.m, cmd)
	children.Unlock()
	if err == nil {
		return 0, nil
	}
	if ee, ok := err.(*exec.ExitError); ok {
		return ee.ExitCode(), nil
	}
	return -1, err
}

func tailFile(path string, n int) string {
	b, err := os.ReadFile(path)
	if err != nil {
		return ""
	}
	if len(b) > n {
		b = b[len(b)-n:]
	}
	return string(b)
}

func headFile(path string, n int) string {
	b, err := os.ReadFile(path)
	if err != nil {
		return ""
	}
	if len(b) > n {
		b = b[:n]
	}
	return string(b)
}

// parentMain drives a whole check. Returns the process exit code.
func parentMain(m *Monitor, tier string, seed uint64) int {
	t0 := time.Now()
	root := VerifRoot()
	work := filepath.Join(root, ".work", m.ID)
	os.RemoveAll(work)
	os.MkdirAll(work, 0o755)
	repDir := filepath.Join(root, "replays")
	os.MkdirAll(repDir, 0o755)
	// remove stale replays of this property
	if old, _ := filepath.Glob(filepath.Join(repDir, m.ID+"-*.json")); old != nil {
		for _, f := range old {
			os.Remove(f)
		}
	}

	ff := loadFindings()
	openKeys := map[string]string{} // key -> finding id
	var myFindings []Finding
	for _, f := range ff.Findings {
		if f.Property != m.ID {
			continue
		}
		myFindings = append(myFindings, f)
		if f.Status == "open" {
			for _, k := range f.Keys {
				openKeys[k] = f.ID
			}
		}
	}

	total := NewResult()
	var unknown []Violation
	knownSeen := map[string]int{}
	exit := 0

	// 1. replay committed findings (open: expected to fail; fixed: regression tests)
	for _, f := range myFindings {
		if f.Replay == "" {
			continue
		}
		out := filepath.Join(work, "finding-"+f.ID+".res")
		code, err := runChild([]string{"-prop", m.ID, "-replayworker", filepath.Join(root, f.Replay), "-out", out}, out+".log")
		res, rerr := readResult(out)
		reproduced := false
		if err != nil || rerr != nil || code != 0 {
			// process-fatal or hang while replaying
			v := Violation{Property: m.ID, Site: "case", Clause: "process-fatal", Trigger: "replay",
				Detail: fmt.Sprintf("replay of finding %s exited %d: %s", f.ID, code, tailFile(out+".log", 2000))}
			if code == 3 {
				v.Clause = "no-return"
			}
			matched := false
			for _, k := range f.Keys {
				if k == v.Key() {
					matched = true
				}
			}
			if matched {
				reproduced = true
			} else {
				v.Replay = filepath.Join(root, f.Replay)
				unknown = append(unknown, v)
			}
		} else {
			total.Evals += res.Evals
			for _, v := range res.Violations {
				matched := false
				for _, k := range f.Keys {
					if k == v.Key() {
						matched = true
					}
				}
				if matched {
					reproduced = true
					continue
				}
				if id, ok := openKeys[v.Key()]; ok {
					knownSeen[id]++
					continue
				}
				v.Replay = filepath.Join(root, f.Replay)
				unknown = append(unknown, v)
			}
		}
		switch {
		case f.Status == "open" && reproduced:
			fmt.Printf("KNOWN-FINDING: property=%s %s: %s\n", m.ID, f.ID, f.What)
			knownSeen[f.ID]++
		case f.Status == "open" && !reproduced:
			fmt.Printf("NOTE: open finding %s (property %s) did not reproduce on this tree\n", f.ID, m.ID)
		case f.Status == "fixed" && reproduced:
			v := Violation{Property: m.ID, Site: "finding", Clause: "regression", Trigger: f.ID,
				Detail: "fixed finding reproduces again: " + f.What, Replay: filepath.Join(root, f.Replay)}
			unknown = append(unknown, v)
		}
	}

	// 2. exploration
	suites, ncases := planCases(m, tier)
	nw := runtime.NumCPU()
	if s := os.Getenv("VERIF_WORKERS"); s != "" {
		if n, err := strconv.Atoi(s); err == nil && n > 0 {
			nw = n
		}
	}
	if int64(nw) > ncases {
		nw = int(ncases)
	}
	if nw < 1 {
		nw = 1
	}
	if m.Race && nw > 4 && os.Getenv("VERIF_WORKERS") == "" {
		nw = 4 // the race workloads are multi-threaded themselves
	}
	var wg sync.WaitGroup
	var mu sync.Mutex
	for sh := 0; sh < nw; sh++ {
		wg.Add(1)
		go func(sh int) {
			defer wg.Done()
			var skipped []string
			for attempt := 0; attempt < 8; attempt++ {
				if aborted() {
					return
				}
				out := filepath.Join(work, fmt.Sprintf("w%d.%d.res", sh, attempt))
				code, err := runChild([]string{"-prop", m.ID, "-tier", tier, "-seed", fmt.Sprint(seed), "-worker",
					"-shard", fmt.Sprint(sh), "-nshards", fmt.Sprint(nw), "-skip", strings.Join(skipped, ","), "-out", out}, out+".log")
				res, rerr := readResult(out)
				if rerr != nil {
					if r2, e2 := readResult(out + ".hung"); e2 == nil {
						res, rerr = r2, nil
					}
				}
				if err == nil && code == 0 && res != nil && res.Done {
					mu.Lock()
					total.Merge(res)
					mu.Unlock()
					return
				}
				if res != nil && res.Abandoned && rerr == nil {
					// the worker reached a verdict and gave itself up (leaked goroutines): its
					// violations decide the run, the rest of this shard is not needed
					mu.Lock()
					total.Merge(res)
					mu.Unlock()
					if len(res.Violations) > 0 {
						abortAll()
					}
					return
				}
				if aborted() {
					return
				}
				// find the offending case
				var g int64 = -1
				if res != nil && res.HungAt >= 0 {
					g = res.HungAt
				} else if b, e := os.ReadFile(out + ".pending"); e == nil {
					fmt.Sscanf(string(b), "%d", &g)
				}
				if g < 0 {
					mu.Lock()
					unknown = append(unknown, Violation{Property: m.ID, Site: "worker", Clause: "process-fatal", Trigger: "no-pending-case",
						Detail: fmt.Sprintf("worker %d exited %d (%v) without result: %s", sh, code, err, tailFile(out+".log", 3000))})
					mu.Unlock()
					return
				}
				cr := caseAt(suites, g)
				// re-run the case alone, generous budget
				out1 := filepath.Join(work, fmt.Sprintf("solo.%d.res", g))
				code1, _ := runChild([]string{"-prop", m.ID, "-tier", tier, "-seed", fmt.Sprint(seed), "-worker", "-only", fmt.Sprint(g),
					"-timeoutmul", "3", "-out", out1}, out1+".log")
				res1, rerr1 := readResult(out1)
				if aborted() {
					return
				}
				v := Violation{Property: m.ID, Suite: cr.suite, Index: cr.idx, Seed: seed, Tier: tier, Site: "case"}
				switch {
				case code1 == 0 && rerr1 == nil && res1.Done:
					// ran fine alone: the first failure was load or a cross-case effect -> inconclusive
					mu.Lock()
					total.Inconclusive = append(total.Inconclusive, fmt.Sprintf("%s/%d: worker exit %d in batch, clean when run alone", cr.suite, cr.idx, code))
					// its violations (if any) count
					res1.Cases = 0
					total.Merge(res1)
					mu.Unlock()
				case code1 == 3:
					v.Clause = "no-return"
					v.Trigger = hangTrigger(out1 + ".log")
					abortAll() // the run is decided; do not burn the budget on the other shards
					v.Detail = fmt.Sprintf("case did not return within 3x the case budget when run alone; goroutine dump head:\n%s", headFile(out1+".log", 3000))
					mu.Lock()
					total.Violations = append(total.Violations, v)
					total.ViolCount++
					mu.Unlock()
				default:
					v.Clause = "process-fatal"
					v.Trigger = fatalTrigger(out1 + ".log")
					abortAll()
					v.Detail = fmt.Sprintf("process died (exit %d) running this case alone:\n%s", code1, headFile(out1+".log", 3000))
					mu.Lock()
					total.Violations = append(total.Violations, v)
					total.ViolCount++
					mu.Unlock()
				}
				skipped = append(skipped, fmt.Sprint(g))
				mu.Lock()
				total.Cases++ // the solo run stands for this case
				mu.Unlock()
			}
			mu.Lock()
			unknown = append(unknown, Violation{Property: m.ID, Site: "worker", Clause: "process-fatal", Trigger: "too-many-restarts",
				Detail: fmt.Sprintf("worker %d needed more than 8 restarts", sh)})
			mu.Unlock()
		}(sh)
	}
	wg.Wait()

	// race-detector logs of the workers (C12 and -race passes)
	raceLogs, _ := filepath.Glob(filepath.Join(work, "*.race.*"))
	if len(raceLogs) > 0 {
		for _, v := range parseRaceLogs(m.ID, raceLogs) {
			total.Violations = append(total.Violations, v)
			total.ViolCount++
		}
	}

	// 3. classify
	sort.SliceStable(total.Violations, func(a, b int) bool {
		x, y := total.Violations[a], total.Violations[b]
		if x.Suite != y.Suite {
			return x.Suite < y.Suite
		}
		return x.Index < y.Index
	})
	for i := range total.Violations {
		v := total.Violations[i]
		if id, ok := openKeys[v.Key()]; ok {
			knownSeen[id]++
			continue
		}
		unknown = append(unknown, v)
	}
	for _, f := range myFindings {
		if f.Status == "open" && f.Replay == "" && knownSeen[f.ID] > 0 {
			fmt.Printf("KNOWN-FINDING: property=%s %s: %s\n", m.ID, f.ID, f.What)
		}
	}
	// write replays, print violation lines (one per distinct key, at most 10)
	printed := map[string]bool{}
	for i := range unknown {
		v := &unknown[i]
		if printed[v.Key()] || len(printed) >= 10 {
			continue
		}
		printed[v.Key()] = true
		path := v.Replay
		if path == "" {
			path = filepath.Join(repDir, fmt.Sprintf("%s-%s-%d.json", m.ID, sanitize(v.Suite), v.Index))
			rf := ReplayFile{Property: m.ID, Suite: v.Suite, Index: v.Index, Seed: v.Seed, Tier: v.Tier, Key: v.Key(), Detail: v.Detail, Scenario: v.Scenario}
			b, _ := json.MarshalIndent(rf, "", " ")
			os.WriteFile(path, b, 0o644)
		}
		fmt.Printf("VIOLATION property=%s replay=%s\n", m.ID, path)
		d := v.Detail
		if len(d) > 1500 {
			d = d[:1500] + "..."
		}
		fmt.Printf("  key=%s suite=%s index=%d\n  %s\n", v.Key(), v.Suite, v.Index, strings.ReplaceAll(d, "\n", "\n  "))
		exit = 1
	}
	for _, s := range total.Inconclusive {
		fmt.Printf("INCONCLUSIVE property=%s %s\n", m.ID, s)
	}

	// 4. evidence
	wall := time.Since(t0).Seconds()
	cov := map[string]any{
		"evaluations":         total.Evals,
		"distinct_nontrivial": len(total.Fingerprints),
		"rule":                m.Rule,
		"cases_run":           total.Cases,
		"cases_planned":       ncases,
		"workers":             nw,
		"inconclusive":        len(total.Inconclusive),
		"known_finding_hits":  knownSeen,
		"violations_observed": total.ViolCount,
	}
	var samples []any
	for _, s := range total.Samples {
		var v any
		json.Unmarshal(s, &v)
		samples = append(samples, v)
	}
	if len(samples) == 0 {
		samples = append(samples, map[string]any{"note": "no sample recorded"})
	}
	cov["samples"] = samples
	counters := map[string]int64{}
	for k, v := range total.Counters {
		counters[k] = v
	}
	for k, v := range total.Maxes {
		counters["max:"+k] = v
	}
	cov["counters"] = counters
	var sl []map[string]any
	allEx := len(suites) > 0
	for _, s := range suites {
		sl = append(sl, map[string]any{"suite": s.Name, "cases": s.N, "exhaustive": s.Exhaustive})
		if !s.Exhaustive {
			allEx = false
		}
	}
	cov["suites"] = sl
	if allEx {
		cov["exhaustive"] = true
	}
	ev := evidence{PropertyID: m.ID, Tier: tier, Seed: int64(seed), Level: m.Level, Coverage: cov,
		Assumptions: m.Assumptions, WallS: wall, Violations: len(printed)}
	eb, _ := json.MarshalIndent(ev, "", " ")
	os.MkdirAll(filepath.Join(root, "evidence"), 0o755)
	os.WriteFile(filepath.Join(root, "evidence", m.ID+".json"), eb, 0o644)

	fmt.Printf("%s %s seed=%d: cases=%d/%d evaluations=%d distinct_nontrivial=%d violations(unknown keys)=%d known=%v inconclusive=%d wall=%.1fs\n",
		m.ID, tier, seed, total.Cases, ncases, total.Evals, len(total.Fingerprints), len(printed), knownSeen, len(total.Inconclusive), wall)
	for _, k := range SortedKeys(counters) {
		fmt.Printf("  %-40s %d\n", k, counters[k])
	}
	if exit == 0 {
		if total.Cases < ncases {
			fmt.Printf("BROKEN-RUN property=%s only %d of %d cases ran\n", m.ID, total.Cases, ncases)
			return 2
		}
		if len(total.Fingerprints) < m.MinDistinct {
			fmt.Printf("BROKEN-RUN property=%s observed %d distinct non-trivial cases, need %d\n", m.ID, len(total.Fingerprints), m.MinDistinct)
			return 2
		}
		for k, min := range m.MinCounters {
			if counters[k] < min {
				fmt.Printf("BROKEN-RUN property=%s counter %s=%d, need at least %d\n", m.ID, k, counters[k], min)
				return 2
			}
		}
	}
	return exit
}

func sanitize(s string) string {
	return strings.Map(func(r rune) rune {
		if r >= 'a' && r <= 'z' || r >= 'A' && r <= 'Z' || r >= '0' && r <= '9' || r == '-' || r == '_' {
			return r
		}
		return '_'
	}, s)
}

func hangTrigger(log string) string {
	b, _ := os.ReadFile(log)
	// the running goroutine's innermost library frame
	i := bytes.Index(b, []byte("[running]"))
	if i < 0 {
		i = 0
	}
	// prefer a goroutine that is inside the library
	return PanicTrigger(b[i:])
}

func fatalTrigger(log string) string {
	b, _ := os.ReadFile(log)
	if i := bytes.Index(b, []byte("fatal error:")); i >= 0 {
		j := bytes.IndexByte(b[i:], '\n')
		if j < 0 {
			j = len(b) - i
		}
		return strings.TrimSpace(string(b[i : i+j]))
	}
	return PanicTrigger(b)
}

// parseRaceLogs turns race-detector reports into violations, de-duplicated by
// the pair of outermost utreexo entry points.
func parseRaceLogs(prop string, files []string) []Violation {
	type rep struct {
		key  string
		text string
		n    int
	}
	seen := map[string]*rep{}
	entry := regexp.MustCompile(`github\.com/utreexo/utreexo\.\(\*?([A-Za-z]+)\)\.([A-Z][A-Za-z0-9_]*)\(`)
	for _, f := range files {
		b, err := os.ReadFile(f)
		if err != nil {
			continue
		}
		blocks := strings.Split(string(b), "==================")
		for _, blk := range blocks {
			if !strings.Contains(blk, "WARNING: DATA RACE") {
				continue
			}
			// split into the access stacks (first two paragraphs)
			paras := strings.Split(strings.TrimSpace(blk), "\n\n")
			var eps []string
			for _, p := range paras {
				if !(strings.Contains(p, "Write at") || strings.Contains(p, "Read at") || strings.Contains(p, "Previous write") || strings.Contains(p, "Previous read")) {
					continue
				}
				ms := entry.FindAllStringSubmatch(p, -1)
				ep := "?"
				if len(ms) > 0 {
					last := ms[len(ms)-1] // outermost exported method frame
					ep = last[1] + "." + last[2]
				}
				eps = append(eps, ep)
			}
			sort.Strings(eps)
			key := strings.Join(eps, "~")
			if r, ok := seen[key]; ok {
				r.n++
				continue
			}
			seen[key] = &rep{key: key, text: strings.TrimSpace(blk), n: 1}
		}
	}
	var out []Violation
	var keys []string
	for k := range seen {
		keys = append(keys, k)
	}
	sort.Strings(keys)
	for _, k := range keys {
		r := seen[k]
		t := r.text
		if len(t) > 4000 {
			t = t[:4000]
		}
		out = append(out, Violation{Property: prop, Site: "race-detector", Clause: "data-race", Trigger: k,
			Detail: fmt.Sprintf("%d report(s) for entry-point pair %s\n%s", r.n, k, t), Suite: "race", Index: 0})
	}
	return out
}

// Main is the entry point of cmd/mon.
func Main() {
	prop := flag.String("prop", "", "property id")
	tier := flag.String("tier", "quick", "quick|thorough")
	seedF := flag.Int64("seed", -1, "seed (default VERIF_SEED or 1)")
	worker := flag.Bool("worker", false, "worker mode")
	shard := flag.Int("shard", 0, "")
	nshards := flag.Int("nshards", 1, "")
	skipF := flag.String("skip", "", "")
	only := flag.Int64("only", -1, "")
	tmul := flag.Int("timeoutmul", 1, "")
	out := flag.String("out", "", "")
	replay := flag.String("replay", "", "replay a case file (verbose)")
	replayWorker := flag.String("replayworker", "", "internal")
	flag.Parse()

	seed := uint64(1)
	if *seedF >= 0 {
		seed = uint64(*seedF)
	} else if s := os.Getenv("VERIF_SEED"); s != "" {
		if n, err := strconv.ParseUint(s, 10, 64); err == nil {
			seed = n
		}
	}
	if *replay != "" || *replayWorker != "" {
		path := *replay
		if path == "" {
			path = *replayWorker
		}
		if *prop == "" {
			b, _ := os.ReadFile(path)
			var rf ReplayFile
			json.Unmarshal(b, &rf)
			*prop = rf.Property
		}
		m := Monitors[*prop]
		if m == nil {
			fmt.Fprintf(os.Stderr, "unknown property %q\n", *prop)
			os.Exit(2)
		}
		if *replayWorker != "" {
			replayMain(m, path, *out, false)
			return
		}
		res := NewResult()
		_ = res
		tmp := filepath.Join(os.TempDir(), fmt.Sprintf("verif-replay-%d.res", os.Getpid()))
		replayMain(m, path, tmp, true)
		r, err := readResult(tmp)
		os.Remove(tmp)
		if err == nil && len(r.Violations) > 0 {
			ff := loadFindings()
			for _, v := range r.Violations {
				known := ""
				for _, f := range ff.Findings {
					if f.Property == m.ID && f.Status == "open" {
						for _, k := range f.Keys {
							if k == v.Key() {
								known = f.ID
							}
						}
					}
				}
				if known != "" {
					fmt.Printf("KNOWN-FINDING: property=%s %s key=%s\n", m.ID, known, v.Key())
				} else {
					fmt.Printf("VIOLATION property=%s replay=%s\n  key=%s\n  %s\n", m.ID, path, v.Key(), v.Detail)
				}
			}
			os.Exit(1)
		}
		fmt.Printf("replay: no violation (evaluations=%d)\n", r.Evals)
		return
	}
	m := Monitors[*prop]
	if m == nil {
		fmt.Fprintf(os.Stderr, "unknown property %q\n", *prop)
		os.Exit(2)
	}
	if *worker {
		skip := map[int64]bool{}
		for _, x := range strings.Split(*skipF, ",") {
			if n, err := strconv.ParseInt(x, 10, 64); err == nil {
				skip[n] = true
			}
		}
		workerMain(m, *tier, seed, *shard, *nshards, skip, *out, *only, *tmul)
		return
	}
	os.Exit(parentMain(m, *tier, seed))
}
