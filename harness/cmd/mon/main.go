// Command mon is the single driver binary: parent, worker and replay modes.
package main

import (
	"verifharness/core"
	_ "verifharness/mon"
)

func main() { core.Main() }
