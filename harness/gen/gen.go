// Package gen holds the seeded workload generators and small-scope enumerators
// (DESIGN.md section 4).  Everything is a deterministic function of the PRNG
// handed in; there are no time budgets.
package gen

import (
	"math/bits"
	"math/rand"
	"sort"

	"verifharness/refmodel"
)

// Block is one block in slot terms: which live slots are deleted (in request
// order) and how many leaves are appended.  Remember[i] is the Remember flag
// of the i-th added leaf (nil = all false).
type Block struct {
	Dels     []int  `json:"dels"`
	Adds     int    `json:"adds"`
	Remember []bool `json:"remember,omitempty"`
}

// History is a sequence of blocks from the empty accumulator.
type History struct {
	Tag    uint64  `json:"tag"`
	Blocks []Block `json:"blocks"`
}

// Profile bounds the random history generator.
type Profile struct {
	MinBlocks, MaxBlocks int
	MaxLeaves            int // soft cap on total slots
	MaxAdds              int
	RememberMode         int // 0 none, 1 random per add, 2 all
}

var Small = Profile{MinBlocks: 2, MaxBlocks: 14, MaxLeaves: 120, MaxAdds: 8}
var Tiny = Profile{MinBlocks: 2, MaxBlocks: 8, MaxLeaves: 40, MaxAdds: 5}
var Tall = Profile{MinBlocks: 10, MaxBlocks: 40, MaxLeaves: 5000, MaxAdds: 300}

// DelMode names, index == mode.
var DelModes = []string{"none", "half", "all", "sparse", "almostall", "wholetree", "sibpair", "leafroots", "single", "twotrees"}

// PickDels draws a deletion set from the live slots of m under a mode.
func PickDels(rng *rand.Rand, m *refmodel.Model, mode int) []int {
	live := m.Live()
	if len(live) == 0 {
		return nil
	}
	var out []int
	switch mode {
	case 0:
	case 1:
		for _, s := range live {
			if rng.Intn(2) == 0 {
				out = append(out, s)
			}
		}
	case 2:
		out = append(out, live...)
	case 3:
		for _, s := range live {
			if rng.Intn(5) == 0 {
				out = append(out, s)
			}
		}
	case 4:
		for _, s := range live {
			if rng.Intn(10) != 0 {
				out = append(out, s)
			}
		}
	case 5, 9: // one (or two) whole trees
		n := m.N()
		var trees [][2]uint64 // [start, size]
		start := uint64(0)
		for r := 63; r >= 0; r-- {
			if (n>>uint(r))&1 == 1 {
				trees = append(trees, [2]uint64{start, 1 << uint(r)})
				start += 1 << uint(r)
			}
		}
		k := 1
		if mode == 9 {
			k = 2
		}
		for ; k > 0 && len(trees) > 0; k-- {
			i := rng.Intn(len(trees))
			t := trees[i]
			trees = append(trees[:i], trees[i+1:]...)
			for s := t[0]; s < t[0]+t[1]; s++ {
				if m.Alive[s] {
					out = append(out, int(s))
				}
			}
		}
	case 6: // one sibling pair (in the current forest)
		f := m.Forest()
		var pairs [][2]int
		for _, nd := range f.Nodes {
			if nd.L != nil && nd.L.Leaf >= 0 && nd.R.Leaf >= 0 {
				pairs = append(pairs, [2]int{nd.L.Leaf, nd.R.Leaf})
			}
		}
		sort.Slice(pairs, func(a, b int) bool { return pairs[a][0] < pairs[b][0] })
		if len(pairs) > 0 {
			p := pairs[rng.Intn(len(pairs))]
			out = append(out, p[0], p[1])
		} else {
			out = append(out, live[rng.Intn(len(live))])
		}
	case 7: // all roots that are leaves
		f := m.Forest()
		for _, t := range f.Trees {
			if t.Root != nil && t.Root.Leaf >= 0 {
				out = append(out, t.Root.Leaf)
			}
		}
	case 8:
		out = append(out, live[rng.Intn(len(live))])
	}
	rng.Shuffle(len(out), func(i, j int) { out[i], out[j] = out[j], out[i] })
	return out
}

// PickAdds draws an addition count, biased to cross powers of two.
func PickAdds(rng *rand.Rand, n uint64, maxAdds int) int {
	c := rng.Intn(6)
	switch c {
	case 0:
		return 0
	case 1, 2: // land exactly on the next power of two / one past it
		np := uint64(1) << uint(bits.Len64(n)) // smallest power of two > n
		d := int(np - n)
		if c == 2 {
			d++
		}
		if d <= 4*maxAdds {
			return d
		}
		return rng.Intn(maxAdds + 1)
	default:
		return rng.Intn(maxAdds + 1)
	}
}

// NextBlock draws one block for the model state m (does not apply it).
func NextBlock(rng *rand.Rand, m *refmodel.Model, p Profile, first bool) Block {
	var b Block
	mode := rng.Intn(len(DelModes))
	b.Dels = PickDels(rng, m, mode)
	room := p.MaxLeaves - len(m.Leaves)
	if room < 0 {
		room = 0
	}
	b.Adds = PickAdds(rng, m.N(), p.MaxAdds)
	if b.Adds > room {
		b.Adds = room
	}
	if first && b.Adds == 0 {
		b.Adds = 1 + rng.Intn(p.MaxAdds)
	}
	switch p.RememberMode {
	case 1:
		b.Remember = make([]bool, b.Adds)
		for i := range b.Remember {
			b.Remember[i] = rng.Intn(3) == 0
		}
	case 2:
		b.Remember = make([]bool, b.Adds)
		for i := range b.Remember {
			b.Remember[i] = true
		}
	}
	return b
}

// ApplyToModel applies a block to the model; leaves are refmodel.LeafHash(tag, ctr).
func ApplyToModel(m *refmodel.Model, b Block, tag uint64, ctr *uint64) (delHashes, addHashes []refmodel.Hash) {
	for _, s := range b.Dels {
		delHashes = append(delHashes, m.Leaves[s])
	}
	for _, s := range b.Dels {
		m.Alive[s] = false
	}
	for i := 0; i < b.Adds; i++ {
		*ctr++
		h := refmodel.LeafHash(tag, *ctr)
		m.Add(h)
		addHashes = append(addHashes, h)
	}
	return
}

// RandomHistory draws a whole history.
func RandomHistory(rng *rand.Rand, p Profile, tag uint64) History {
	h := History{Tag: tag}
	m := &refmodel.Model{}
	var ctr uint64
	nb := p.MinBlocks + rng.Intn(p.MaxBlocks-p.MinBlocks+1)
	for i := 0; i < nb; i++ {
		b := NextBlock(rng, m, p, i == 0)
		ApplyToModel(m, b, tag, &ctr)
		h.Blocks = append(h.Blocks, b)
	}
	return h
}

// EnumParams bounds the small-scope enumerator: block i adds 0..MaxAdds[i]
// leaves (block 0 adds 1..MaxAdds[0]) and deletes every subset of live leaves.
type EnumParams struct {
	MaxAdds []int
}

// EnumHistories lists every history in the scope.
func EnumHistories(p EnumParams, tag uint64) []History {
	var out []History
	var rec func(blocks []Block, live []int, n int, depth int)
	rec = func(blocks []Block, live []int, n int, depth int) {
		if depth == len(p.MaxAdds) {
			out = append(out, History{Tag: tag, Blocks: append([]Block(nil), blocks...)})
			return
		}
		nsub := 1
		if depth > 0 {
			nsub = 1 << uint(len(live))
		}
		for mask := 0; mask < nsub; mask++ {
			var dels, rest []int
			for i, s := range live {
				if mask>>uint(i)&1 == 1 {
					dels = append(dels, s)
				} else {
					rest = append(rest, s)
				}
			}
			lo := 0
			if depth == 0 {
				lo = 1
			}
			for a := lo; a <= p.MaxAdds[depth]; a++ {
				nl := append([]int(nil), rest...)
				for i := 0; i < a; i++ {
					nl = append(nl, n+i)
				}
				rec(append(blocks, Block{Dels: dels, Adds: a}), nl, n+a, depth+1)
			}
		}
	}
	rec(nil, nil, 0, 0)
	return out
}

// Subsets returns all subsets of xs (2^len).
func Subsets(xs []int) [][]int {
	var out [][]int
	for mask := 0; mask < 1<<uint(len(xs)); mask++ {
		var s []int
		for i, x := range xs {
			if mask>>uint(i)&1 == 1 {
				s = append(s, x)
			}
		}
		out = append(out, s)
	}
	return out
}
