#!/usr/bin/env python3-vt
"""Validate MANIFEST.json and evidence/*.json against the schemas in /root/.vp."""
import json, sys, glob
try:
    import jsonschema
except ImportError:
    print("jsonschema not available; skipping"); sys.exit(0)
ok = True
def check(path, schema):
    global ok
    try:
        jsonschema.validate(json.load(open(path)), json.load(open(schema)))
        print("valid  ", path)
    except Exception as e:
        ok = False
        print("INVALID", path, str(e)[:300])
check("MANIFEST.json", "/root/.vp/MANIFEST.schema.json")
for f in sorted(glob.glob("evidence/*.json")):
    check(f, "/root/.vp/EVIDENCE.schema.json")
sys.exit(0 if ok else 1)
