#!/usr/bin/env bash
# ./run.sh <ID> quick|thorough      run a property check against /repo's current tree
# ./run.sh <ID> --replay <path>     replay one recorded case verbosely
# ./run.sh --build                  build both binaries (setup)
set -u
cd "$(dirname "$0")"
ROOT="$(pwd)"
export GOFLAGS=-mod=mod GOPROXY=off GOSUMDB=off GOTOOLCHAIN=local
export VERIF_ROOT="${VERIF_ROOT:-$ROOT}"
mkdir -p .bin
build() { # $1 = plain|race
  local out=".bin/mon-$1" flags=""
  [ "$1" = race ] && flags="-race"
  ( cd harness && cp /repo/go.sum go.sum.repo 2>/dev/null; \
    cat go.sum.repo go.sum.extra 2>/dev/null | sort -u > go.sum; rm -f go.sum.repo; \
    go build $flags -tags verif -o "../$out" ./cmd/mon ) >"$ROOT/.bin/build-$1.log" 2>&1
  local rc=$?
  if [ $rc -ne 0 ]; then
    echo "BUILD-FAILED ($1): see $ROOT/.bin/build-$1.log"; sed -n 1,40p "$ROOT/.bin/build-$1.log"; exit 2
  fi
}
if [ "${1:-}" = "--build" ]; then build plain; build race; echo "built"; exit 0; fi
ID="${1:?property id}"; MODE="${2:?quick|thorough|--replay}"
KIND=plain
case "$ID" in C12) KIND=race;; esac
[ "${VERIF_RACE:-0}" = 1 ] && KIND=race
build $KIND
if [ "$MODE" = "--replay" ]; then
  exec ".bin/mon-$KIND" -prop "$ID" -replay "${3:?path}"
fi
exec ".bin/mon-$KIND" -prop "$ID" -tier "$MODE"
